//! Constructors: for every shape that can be built in place, an abstract symbolic value
//! (`AnyV`), the library emplacer(s) that realise it, and the reference expectations
//! (canonical content, needed bytes).
#![allow(non_camel_case_types)]
use crate::refm::*;
use crate::shapes::*;
use flatty::{
    flat_vec, flex,
    portable::{be, le, Bool},
    prelude::*,
    string, vec, Emplacer, Error, FlatString, FlatVec, FlexVec,
};

/// Uniform abstract value; each shape reads the fields it needs.
#[derive(Clone, Copy)]
pub struct AnyV {
    /// variant selector / constructor selector
    pub sel: u8,
    pub a: u8,
    pub b: u16,
    pub c: u32,
    pub f: bool,
    pub g: bool,
    /// container length (<= 3)
    pub m: usize,
    pub it: [u8; 3],
    /// second-level lengths for nested containers (<= 2)
    pub m2: [usize; 3],
    /// constructor flavour (array / iterator)
    pub ctor: u8,
}

#[cfg(kani)]
impl AnyV {
    pub fn any() -> Self {
        let v = AnyV {
            sel: kani::any(),
            a: kani::any(),
            b: kani::any(),
            c: kani::any(),
            f: kani::any(),
            g: kani::any(),
            m: kani::any(),
            it: kani::any(),
            m2: kani::any(),
            ctor: kani::any(),
        };
        kani::assume(v.m <= 3);
        kani::assume(v.m2[0] <= 2 && v.m2[1] <= 2 && v.m2[2] <= 2);
        kani::assume(v.ctor <= 1);
        v
    }
}

impl AnyV {
    pub const fn zero() -> Self {
        AnyV { sel: 0, a: 0, b: 0, c: 0, f: false, g: false, m: 0, it: [0; 3], m2: [0; 3], ctor: 0 }
    }
}

pub trait Build: Shape {
    /// number of variants / constructor selections (sel is assumed < NSEL)
    const NSEL: u8;
    /// expected canonical content of the value
    fn canon(v: &AnyV) -> Canon;
    /// reference: number of bytes the content needs (= its extent)
    fn need(v: &AnyV) -> usize;
    /// build through the library
    fn emplace<'a>(v: &AnyV, bytes: &'a mut [u8]) -> Result<&'a mut Self::T, Error>;
    /// the abstract value `default_in_place` must produce
    fn default_v() -> AnyV {
        AnyV::zero()
    }
    /// restriction on the abstract value (e.g. string bytes form valid UTF-8)
    fn admissible(_v: &AnyV) -> bool {
        true
    }
    /// for unsized enums: does the variant's fixed part fit a target mapped from `n` bytes?
    /// (`assign_in_place` must leave the target untouched when it does not)
    fn fits_static(_v: &AnyV, _n: usize) -> bool {
        true
    }
    /// known finding D17: the replacement is a variant whose field is itself an unsized enum and
    /// the *inner* initialiser refuses (its own size check) after the outer tag was written
    fn nested_refusal(_v: &AnyV, _n: usize) -> bool {
        false
    }
    /// assign into an existing value (unsized shapes)
    fn assign<'a>(v: &AnyV, t: &'a mut Self::T) -> Result<&'a mut Self::T, Error>;
}

fn bl(x: bool) -> Bool {
    Bool::from(x)
}
fn b8(x: bool) -> u8 {
    x as u8
}

/// first `m` of `it` as canonical vector content
fn canon_vec_u8(c: &mut Canon, v: &AnyV) {
    c.put(v.m as u8);
    let mut i = 0;
    while i < v.m {
        c.put(v.it[i]);
        i += 1;
    }
}

/// FlatVec<u8, L> emplacer from the abstract value: array literal or iterator flavour.
macro_rules! emplace_vec_u8 {
    ($T:ty, $v:expr, $bytes:expr, $how:ident) => {{
        let v: &AnyV = $v;
        if v.ctor == 0 {
            match v.m {
                0 => <$T>::$how($bytes, flat_vec![]),
                1 => <$T>::$how($bytes, flat_vec![v.it[0]]),
                2 => <$T>::$how($bytes, flat_vec![v.it[0], v.it[1]]),
                _ => <$T>::$how($bytes, flat_vec![v.it[0], v.it[1], v.it[2]]),
            }
        } else {
            let it = v.it;
            <$T>::$how($bytes, vec::FromIterator((0..v.m).map(move |i| it[i])))
        }
    }};
}

/// same for a nested field: yields an emplacer expression per length via callback
macro_rules! with_vec_emplacer {
    ($v:expr, |$e:ident| $body:expr) => {{
        let v: &AnyV = $v;
        match v.m {
            0 => {
                let $e = flat_vec![];
                $body
            }
            1 => {
                let $e = flat_vec![v.it[0]];
                $body
            }
            2 => {
                let $e = flat_vec![v.it[0], v.it[1]];
                $body
            }
            _ => {
                let $e = flat_vec![v.it[0], v.it[1], v.it[2]];
                $body
            }
        }
    }};
}

macro_rules! build_sized {
    ($S:ident, $T:ty, $nsel:expr, |$v:ident| $mk:expr, |$v2:ident, $c:ident| $canon:block, $size:expr, $def:expr) => {
        impl Build for $S {
            const NSEL: u8 = $nsel;
            fn canon($v2: &AnyV) -> Canon {
                let mut cc = Canon::new();
                {
                    let $c = &mut cc;
                    $canon
                }
                cc
            }
            fn need(_: &AnyV) -> usize {
                $size
            }
            fn emplace<'a>($v: &AnyV, bytes: &'a mut [u8]) -> Result<&'a mut $T, Error> {
                <$T>::new_in_place(bytes, $mk)
            }
            fn default_v() -> AnyV {
                $def
            }
            fn assign<'a>($v: &AnyV, t: &'a mut $T) -> Result<&'a mut $T, Error> {
                t.assign_in_place($mk)
            }
        }
    };
}

build_sized!(S_U16, u16, 1, |v| v.b, |v, c| { c.put16(v.b); }, 2, AnyV::zero());

build_sized!(S_SB, SB, 1, |v| SB { x: bl(v.f), y: v.b, z: bl(v.g) }, |v, c| {
    c.put(b8(v.f));
    c.put16(v.b);
    c.put(b8(v.g));
}, 6, AnyV::zero());

build_sized!(S_SS1, SS1, 1, |v| SS1 { a: v.a, b: v.b, c: v.c }, |v, c| {
    c.put(v.a);
    c.put16(v.b);
    c.put32(v.c);
}, 8, AnyV::zero());

build_sized!(S_SE1, SE1, 4, |v| match v.sel {
    0 => SE1::A,
    1 => SE1::B(v.b, v.a),
    2 => SE1::C { a: bl(v.f), b: v.b },
    _ => SE1::D(v.c),
}, |v, c| {
    c.put(v.sel);
    match v.sel {
        0 => {}
        1 => {
            c.put16(v.b);
            c.put(v.a);
        }
        2 => {
            c.put(b8(v.f));
            c.put16(v.b);
        }
        _ => c.put32(v.c),
    }
}, 8, AnyV::zero());

build_sized!(S_CE, CE, 3, |v| match v.sel {
    0 => CE::A,
    1 => CE::B,
    _ => CE::C,
}, |v, c| { c.put(v.sel); }, 1, AnyV::zero());

build_sized!(S_SE16, SE16, 2, |v| match v.sel {
    0 => SE16::A,
    _ => SE16::B(bl(v.f)),
}, |v, c| {
    c.put(v.sel);
    if v.sel == 1 {
        c.put(b8(v.f));
    }
}, 4, AnyV::zero());

build_sized!(S_PS, PS, 1, |v| PS { a: v.a, b: le::U16::from(v.b), c: be::U32::from(v.c) }, |v, c| {
    c.put(v.a);
    c.put16(v.b);
    c.put32(v.c);
}, 7, AnyV::zero());

build_sized!(S_PE, PE, 3, |v| match v.sel {
    0 => PE::A,
    1 => PE::B(le::U16::from(v.b), bl(v.f)),
    _ => PE::C(PS { a: v.a, b: le::U16::from(v.b), c: be::U32::from(v.c) }),
}, |v, c| {
    c.put(v.sel);
    match v.sel {
        0 => {}
        1 => {
            c.put16(v.b);
            c.put(b8(v.f));
        }
        _ => {
            c.put(v.a);
            c.put16(v.b);
            c.put32(v.c);
        }
    }
}, 8, AnyV::zero());

// ------------------------------- FlatVec / FlatString -------------------------------

impl Build for V_U8 {
    const NSEL: u8 = 1;
    fn canon(v: &AnyV) -> Canon {
        let mut c = Canon::new();
        canon_vec_u8(&mut c, v);
        c
    }
    fn need(v: &AnyV) -> usize {
        1 + v.m
    }
    fn emplace<'a>(v: &AnyV, bytes: &'a mut [u8]) -> Result<&'a mut FlatVec<u8, u8>, Error> {
        emplace_vec_u8!(FlatVec<u8, u8>, v, bytes, new_in_place)
    }
    fn assign<'a>(v: &AnyV, t: &'a mut FlatVec<u8, u8>) -> Result<&'a mut FlatVec<u8, u8>, Error> {
        with_vec_emplacer!(v, |e| t.assign_in_place(e))
    }
}

impl Build for V_U8L32 {
    const NSEL: u8 = 1;
    fn canon(v: &AnyV) -> Canon {
        let mut c = Canon::new();
        canon_vec_u8(&mut c, v);
        c
    }
    fn need(v: &AnyV) -> usize {
        ce(4 + v.m, 4)
    }
    fn emplace<'a>(v: &AnyV, bytes: &'a mut [u8]) -> Result<&'a mut FlatVec<u8, u32>, Error> {
        emplace_vec_u8!(FlatVec<u8, u32>, v, bytes, new_in_place)
    }
    fn assign<'a>(v: &AnyV, t: &'a mut FlatVec<u8, u32>) -> Result<&'a mut FlatVec<u8, u32>, Error> {
        with_vec_emplacer!(v, |e| t.assign_in_place(e))
    }
}

impl Build for V_U16 {
    const NSEL: u8 = 1;
    fn canon(v: &AnyV) -> Canon {
        let mut c = Canon::new();
        c.put(v.m as u8);
        let mut i = 0;
        while i < v.m {
            c.put16(v.it[i] as u16 * 257);
            i += 1;
        }
        c
    }
    fn need(v: &AnyV) -> usize {
        2 + 2 * v.m
    }
    fn emplace<'a>(v: &AnyV, bytes: &'a mut [u8]) -> Result<&'a mut FlatVec<u16, u8>, Error> {
        let it = v.it;
        FlatVec::<u16, u8>::new_in_place(bytes, vec::FromIterator((0..v.m).map(move |i| it[i] as u16 * 257)))
    }
    fn assign<'a>(v: &AnyV, t: &'a mut FlatVec<u16, u8>) -> Result<&'a mut FlatVec<u16, u8>, Error> {
        let it = v.it;
        t.assign_in_place(vec::FromIterator((0..v.m).map(move |i| it[i] as u16 * 257)))
    }
}

impl Build for V_SB {
    const NSEL: u8 = 1;
    fn canon(v: &AnyV) -> Canon {
        let mut c = Canon::new();
        let m = if v.m > 2 { 2 } else { v.m };
        c.put(m as u8);
        let mut i = 0;
        while i < m {
            c.put(b8(v.f));
            c.put16(v.b.wrapping_add(i as u16));
            c.put(b8(v.g));
            i += 1;
        }
        c
    }
    fn need(v: &AnyV) -> usize {
        let m = if v.m > 2 { 2 } else { v.m };
        2 + 6 * m
    }
    fn emplace<'a>(v: &AnyV, bytes: &'a mut [u8]) -> Result<&'a mut FlatVec<SB, u8>, Error> {
        let m = if v.m > 2 { 2 } else { v.m };
        let (f, g, b) = (v.f, v.g, v.b);
        FlatVec::<SB, u8>::new_in_place(
            bytes,
            vec::FromIterator((0..m).map(move |i| SB { x: bl(f), y: b.wrapping_add(i as u16), z: bl(g) })),
        )
    }
    fn assign<'a>(v: &AnyV, t: &'a mut FlatVec<SB, u8>) -> Result<&'a mut FlatVec<SB, u8>, Error> {
        let m = if v.m > 2 { 2 } else { v.m };
        let (f, g, b) = (v.f, v.g, v.b);
        t.assign_in_place(vec::FromIterator((0..m).map(move |i| SB { x: bl(f), y: b.wrapping_add(i as u16), z: bl(g) })))
    }
}

impl Build for V_A3 {
    const NSEL: u8 = 1;
    fn canon(v: &AnyV) -> Canon {
        let mut c = Canon::new();
        let m = if v.m > 2 { 2 } else { v.m };
        c.put(m as u8);
        let mut i = 0;
        while i < m {
            c.put(v.it[0]);
            c.put(v.it[1]);
            c.put(v.it[2].wrapping_add(i as u8));
            i += 1;
        }
        c
    }
    fn need(v: &AnyV) -> usize {
        let m = if v.m > 2 { 2 } else { v.m };
        ce(2 + 3 * m, 2)
    }
    fn emplace<'a>(v: &AnyV, bytes: &'a mut [u8]) -> Result<&'a mut FlatVec<[u8; 3], u16>, Error> {
        let m = if v.m > 2 { 2 } else { v.m };
        let it = v.it;
        FlatVec::<[u8; 3], u16>::new_in_place(
            bytes,
            vec::FromIterator((0..m).map(move |i| [it[0], it[1], it[2].wrapping_add(i as u8)])),
        )
    }
    fn assign<'a>(v: &AnyV, t: &'a mut FlatVec<[u8; 3], u16>) -> Result<&'a mut FlatVec<[u8; 3], u16>, Error> {
        let m = if v.m > 2 { 2 } else { v.m };
        let it = v.it;
        t.assign_in_place(vec::FromIterator((0..m).map(move |i| [it[0], it[1], it[2].wrapping_add(i as u8)])))
    }
}

impl Build for V_P {
    const NSEL: u8 = 1;
    fn canon(v: &AnyV) -> Canon {
        let mut c = Canon::new();
        c.put(v.m as u8);
        let mut i = 0;
        while i < v.m {
            c.put16(v.b.wrapping_add(v.it[i] as u16));
            i += 1;
        }
        c
    }
    fn need(v: &AnyV) -> usize {
        2 + 2 * v.m
    }
    fn emplace<'a>(v: &AnyV, bytes: &'a mut [u8]) -> Result<&'a mut FlatVec<le::U16, le::U16>, Error> {
        let (it, b) = (v.it, v.b);
        FlatVec::<le::U16, le::U16>::new_in_place(
            bytes,
            vec::FromIterator((0..v.m).map(move |i| le::U16::from(b.wrapping_add(it[i] as u16)))),
        )
    }
    fn assign<'a>(v: &AnyV, t: &'a mut FlatVec<le::U16, le::U16>) -> Result<&'a mut FlatVec<le::U16, le::U16>, Error> {
        let (it, b) = (v.it, v.b);
        t.assign_in_place(vec::FromIterator((0..v.m).map(move |i| le::U16::from(b.wrapping_add(it[i] as u16)))))
    }
}

/// A symbolic string of `m <= 3` bytes taken from `it`, assumed well-formed UTF-8 by the caller
/// (`str_ok`).
pub fn str_ok(v: &AnyV) -> bool {
    utf8_first_bad(&v.it, 0, v.m) == v.m
}
fn str_of(v: &AnyV) -> &str {
    unsafe { core::str::from_utf8_unchecked(&v.it[..v.m]) }
}

macro_rules! build_str {
    ($S:ident, $L:ty, $lsz:expr, $al:expr) => {
        impl Build for $S {
            const NSEL: u8 = 1;
            fn canon(v: &AnyV) -> Canon {
                let mut c = Canon::new();
                canon_vec_u8(&mut c, v);
                c
            }
            fn need(v: &AnyV) -> usize {
                ce($lsz + v.m, $al)
            }
            fn admissible(v: &AnyV) -> bool {
                str_ok(v)
            }
            fn emplace<'a>(v: &AnyV, bytes: &'a mut [u8]) -> Result<&'a mut FlatString<$L>, Error> {
                FlatString::<$L>::new_in_place(bytes, string::FromStr(str_of(v)))
            }
            fn assign<'a>(v: &AnyV, t: &'a mut FlatString<$L>) -> Result<&'a mut FlatString<$L>, Error> {
                t.assign_in_place(string::FromStr(str_of(v)))
            }
        }
    };
}
build_str!(STR8, u8, 1, 1);
build_str!(STR16, u16, 2, 2);
build_str!(STRP, le::U16, 2, 1);

// ------------------------------------- FlexVec -------------------------------------

impl Build for X_U8 {
    const NSEL: u8 = 1;
    fn canon(v: &AnyV) -> Canon {
        let mut c = Canon::new();
        let mut i = 0;
        while i < v.m {
            c.put(v.it[i]);
            i += 1;
        }
        c.put(v.m as u8);
        c
    }
    fn need(v: &AnyV) -> usize {
        if v.m == 0 {
            1
        } else {
            2 * v.m
        }
    }
    fn emplace<'a>(v: &AnyV, bytes: &'a mut [u8]) -> Result<&'a mut FlexVec<u8, u8>, Error> {
        let it = v.it;
        FlexVec::<u8, u8>::new_in_place(bytes, flex::FromIterator::new((0..v.m).map(move |i| it[i])))
    }
    fn assign<'a>(v: &AnyV, t: &'a mut FlexVec<u8, u8>) -> Result<&'a mut FlexVec<u8, u8>, Error> {
        let it = v.it;
        t.assign_in_place(flex::FromIterator::new((0..v.m).map(move |i| it[i])))
    }
}

impl Build for X_U8P {
    const NSEL: u8 = 1;
    fn canon(v: &AnyV) -> Canon {
        let mut c = Canon::new();
        let mut i = 0;
        while i < v.m {
            c.put(v.it[i]);
            i += 1;
        }
        c.put(v.m as u8);
        c
    }
    fn need(v: &AnyV) -> usize {
        if v.m == 0 {
            2
        } else {
            3 * v.m
        }
    }
    fn emplace<'a>(v: &AnyV, bytes: &'a mut [u8]) -> Result<&'a mut FlexVec<u8, le::U16>, Error> {
        let it = v.it;
        FlexVec::<u8, le::U16>::new_in_place(bytes, flex::FromIterator::new((0..v.m).map(move |i| it[i])))
    }
    fn assign<'a>(v: &AnyV, t: &'a mut FlexVec<u8, le::U16>) -> Result<&'a mut FlexVec<u8, le::U16>, Error> {
        let it = v.it;
        t.assign_in_place(flex::FromIterator::new((0..v.m).map(move |i| it[i])))
    }
}

impl Build for U_E5 {
    const NSEL: u8 = 2;
    fn canon(v: &AnyV) -> Canon {
        let mut c = Canon::new();
        c.put(v.sel);
        if v.sel == 1 {
            c.put(v.a);
            c.put32(v.c);
            c.put(v.it[0]);
        }
        c
    }
    fn need(v: &AnyV) -> usize {
        if v.sel == 0 {
            4
        } else {
            16
        }
    }
    fn fits_static(v: &AnyV, n: usize) -> bool {
        v.sel == 0 || fl(n - 4, 4) >= 9
    }
    fn emplace<'a>(v: &AnyV, bytes: &'a mut [u8]) -> Result<&'a mut UE5, Error> {
        match v.sel {
            0 => UE5::new_in_place(bytes, UE5InitA),
            _ => UE5::new_in_place(bytes, UE5InitB(v.a, v.c, v.it[0])),
        }
    }
    fn assign<'a>(v: &AnyV, t: &'a mut UE5) -> Result<&'a mut UE5, Error> {
        match v.sel {
            0 => t.assign_in_place(UE5InitA),
            _ => t.assign_in_place(UE5InitB(v.a, v.c, v.it[0])),
        }
    }
}

impl Build for X_U16 {
    const NSEL: u8 = 1;
    fn canon(v: &AnyV) -> Canon {
        let mut c = Canon::new();
        let mut i = 0;
        while i < v.m {
            c.put16(v.b.wrapping_add(v.it[i] as u16));
            i += 1;
        }
        c.put(v.m as u8);
        c
    }
    fn need(v: &AnyV) -> usize {
        if v.m == 0 {
            2
        } else {
            4 * v.m
        }
    }
    fn emplace<'a>(v: &AnyV, bytes: &'a mut [u8]) -> Result<&'a mut FlexVec<u16, u16>, Error> {
        let (it, b) = (v.it, v.b);
        FlexVec::<u16, u16>::new_in_place(bytes, flex::FromIterator::new((0..v.m).map(move |i| b.wrapping_add(it[i] as u16))))
    }
    fn assign<'a>(v: &AnyV, t: &'a mut FlexVec<u16, u16>) -> Result<&'a mut FlexVec<u16, u16>, Error> {
        let (it, b) = (v.it, v.b);
        t.assign_in_place(flex::FromIterator::new((0..v.m).map(move |i| b.wrapping_add(it[i] as u16))))
    }
}

/// FlexVec<FlatVec<u8,u8>,u8> of `m <= 2` items; item i holds `m2[i] <= 2` copies of it[i]
fn xv_m(v: &AnyV) -> usize {
    if v.m > 2 {
        2
    } else {
        v.m
    }
}
impl Build for X_V {
    const NSEL: u8 = 1;
    fn canon(v: &AnyV) -> Canon {
        let mut c = Canon::new();
        let m = xv_m(v);
        let mut i = 0;
        while i < m {
            c.put(v.m2[i] as u8);
            let mut j = 0;
            while j < v.m2[i] {
                c.put(v.it[i]);
                j += 1;
            }
            i += 1;
        }
        c.put(m as u8);
        c
    }
    fn need(v: &AnyV) -> usize {
        let m = xv_m(v);
        if m == 0 {
            return 1;
        }
        let mut n = 0;
        let mut i = 0;
        while i < m {
            n += 1 + 1 + v.m2[i];
            i += 1;
        }
        n
    }
    fn emplace<'a>(v: &AnyV, bytes: &'a mut [u8]) -> Result<&'a mut FlexVec<FlatVec<u8, u8>, u8>, Error> {
        let (it, m2) = (v.it, v.m2);
        FlexVec::<FlatVec<u8, u8>, u8>::new_in_place(
            bytes,
            flex::FromIterator::new((0..xv_m(v)).map(move |i| {
                let x = it[i];
                vec::FromIterator((0..m2[i]).map(move |_| x))
            })),
        )
    }
    fn assign<'a>(v: &AnyV, t: &'a mut FlexVec<FlatVec<u8, u8>, u8>) -> Result<&'a mut FlexVec<FlatVec<u8, u8>, u8>, Error> {
        let (it, m2) = (v.it, v.m2);
        t.assign_in_place(flex::FromIterator::new((0..xv_m(v)).map(move |i| {
            let x = it[i];
            vec::FromIterator((0..m2[i]).map(move |_| x))
        })))
    }
}

// ---------------------------------- unsized structs ----------------------------------

impl Build for U_S1 {
    const NSEL: u8 = 1;
    fn canon(v: &AnyV) -> Canon {
        let mut c = Canon::new();
        c.put(v.a);
        c.put16(v.b);
        canon_vec_u8(&mut c, v);
        c
    }
    fn need(v: &AnyV) -> usize {
        ce(5 + v.m, 2)
    }
    fn emplace<'a>(v: &AnyV, bytes: &'a mut [u8]) -> Result<&'a mut US1, Error> {
        with_vec_emplacer!(v, |e| US1::new_in_place(bytes, US1Init { a: v.a, b: v.b, c: e }))
    }
    fn assign<'a>(v: &AnyV, t: &'a mut US1) -> Result<&'a mut US1, Error> {
        with_vec_emplacer!(v, |e| t.assign_in_place(US1Init { a: v.a, b: v.b, c: e }))
    }
}

impl Build for U_S6 {
    const NSEL: u8 = 1;
    fn canon(v: &AnyV) -> Canon {
        let mut c = Canon::new();
        c.put(v.a);
        c.put(v.c as u8);
        c.put((v.c >> 8) as u8);
        c.put16(v.b);
        canon_vec_u8(&mut c, v);
        c
    }
    fn need(v: &AnyV) -> usize {
        ce(7 + v.m, 2)
    }
    fn emplace<'a>(v: &AnyV, bytes: &'a mut [u8]) -> Result<&'a mut US6, Error> {
        with_vec_emplacer!(v, |e| US6::new_in_place(bytes, US6Init { a: v.a, b: [v.c as u8, (v.c >> 8) as u8], c: v.b, d: e }))
    }
    fn assign<'a>(v: &AnyV, t: &'a mut US6) -> Result<&'a mut US6, Error> {
        with_vec_emplacer!(v, |e| t.assign_in_place(US6Init { a: v.a, b: [v.c as u8, (v.c >> 8) as u8], c: v.b, d: e }))
    }
}

impl Build for U_S2 {
    const NSEL: u8 = 1;
    fn canon(v: &AnyV) -> Canon {
        let mut c = Canon::new();
        c.put32(v.c);
        canon_vec_u8(&mut c, v);
        c
    }
    fn need(v: &AnyV) -> usize {
        ce(5 + v.m, 4)
    }
    fn emplace<'a>(v: &AnyV, bytes: &'a mut [u8]) -> Result<&'a mut US2, Error> {
        with_vec_emplacer!(v, |e| US2::new_in_place(bytes, US2Init { a: v.c, c: e }))
    }
    fn assign<'a>(v: &AnyV, t: &'a mut US2) -> Result<&'a mut US2, Error> {
        with_vec_emplacer!(v, |e| t.assign_in_place(US2Init { a: v.c, c: e }))
    }
}

impl Build for U_S3 {
    const NSEL: u8 = 1;
    fn canon(v: &AnyV) -> Canon {
        let mut c = Canon::new();
        c.put(b8(v.f));
        canon_vec_u8(&mut c, v);
        c
    }
    fn need(v: &AnyV) -> usize {
        2 + v.m
    }
    fn admissible(v: &AnyV) -> bool {
        str_ok(v)
    }
    fn emplace<'a>(v: &AnyV, bytes: &'a mut [u8]) -> Result<&'a mut US3, Error> {
        US3::new_in_place(bytes, US3Init { a: bl(v.f), s: string::FromStr(str_of(v)) })
    }
    fn assign<'a>(v: &AnyV, t: &'a mut US3) -> Result<&'a mut US3, Error> {
        t.assign_in_place(US3Init { a: bl(v.f), s: string::FromStr(str_of(v)) })
    }
}

impl Build for U_S4 {
    const NSEL: u8 = 1;
    fn canon(v: &AnyV) -> Canon {
        let mut c = Canon::new();
        c.put(v.a);
        let mut i = 0;
        while i < v.m {
            c.put(v.it[i]);
            i += 1;
        }
        c.put(v.m as u8);
        c
    }
    fn need(v: &AnyV) -> usize {
        1 + if v.m == 0 { 1 } else { 2 * v.m }
    }
    fn emplace<'a>(v: &AnyV, bytes: &'a mut [u8]) -> Result<&'a mut US4, Error> {
        let it = v.it;
        US4::new_in_place(bytes, US4Init { a: v.a, f: flex::FromIterator::new((0..v.m).map(move |i| it[i])) })
    }
    fn assign<'a>(v: &AnyV, t: &'a mut US4) -> Result<&'a mut US4, Error> {
        let it = v.it;
        t.assign_in_place(US4Init { a: v.a, f: flex::FromIterator::new((0..v.m).map(move |i| it[i])) })
    }
}

impl Build for U_PS {
    const NSEL: u8 = 1;
    fn canon(v: &AnyV) -> Canon {
        let mut c = Canon::new();
        c.put16(v.b);
        c.put(v.m as u8);
        let mut i = 0;
        while i < v.m {
            c.put16(v.it[i] as u16 * 257);
            i += 1;
        }
        c
    }
    fn need(v: &AnyV) -> usize {
        4 + 2 * v.m
    }
    fn emplace<'a>(v: &AnyV, bytes: &'a mut [u8]) -> Result<&'a mut PUS, Error> {
        let it = v.it;
        PUS::new_in_place(
            bytes,
            PUSInit { a: le::U16::from(v.b), b: vec::FromIterator((0..v.m).map(move |i| le::U16::from(it[i] as u16 * 257))) },
        )
    }
    fn assign<'a>(v: &AnyV, t: &'a mut PUS) -> Result<&'a mut PUS, Error> {
        let it = v.it;
        t.assign_in_place(PUSInit {
            a: le::U16::from(v.b),
            b: vec::FromIterator((0..v.m).map(move |i| le::U16::from(it[i] as u16 * 257))),
        })
    }
}

// ----------------------------------- unsized enums -----------------------------------

impl Build for U_E1 {
    const NSEL: u8 = 3;
    fn canon(v: &AnyV) -> Canon {
        let mut c = Canon::new();
        c.put(v.sel);
        match v.sel {
            0 => {}
            1 => {
                c.put(v.a);
                c.put16(v.b);
            }
            _ => {
                c.put32(v.c);
                canon_vec_u8(&mut c, v);
            }
        }
        c
    }
    fn need(v: &AnyV) -> usize {
        match v.sel {
            0 => 4,
            1 => 8,
            _ => ce(10 + v.m, 4),
        }
    }
    fn fits_static(v: &AnyV, n: usize) -> bool {
        // data bytes = floor(n - 4, 4); A needs 0, B 4, C 6
        let dn = fl(n - 4, 4);
        match v.sel {
            0 => true,
            1 => dn >= 4,
            _ => dn >= 6,
        }
    }
    fn emplace<'a>(v: &AnyV, bytes: &'a mut [u8]) -> Result<&'a mut UE1, Error> {
        match v.sel {
            0 => UE1::new_in_place(bytes, UE1InitA),
            1 => UE1::new_in_place(bytes, UE1InitB(v.a, v.b)),
            _ => with_vec_emplacer!(v, |e| UE1::new_in_place(bytes, UE1InitC { offset: v.c, bytes: e })),
        }
    }
    fn assign<'a>(v: &AnyV, t: &'a mut UE1) -> Result<&'a mut UE1, Error> {
        match v.sel {
            0 => t.assign_in_place(UE1InitA),
            1 => t.assign_in_place(UE1InitB(v.a, v.b)),
            _ => with_vec_emplacer!(v, |e| t.assign_in_place(UE1InitC { offset: v.c, bytes: e })),
        }
    }
}

impl Build for U_E2 {
    const NSEL: u8 = 3;
    fn canon(v: &AnyV) -> Canon {
        let mut c = Canon::new();
        c.put(v.sel);
        match v.sel {
            0 => {}
            1 => c.put(b8(v.f)),
            _ => canon_vec_u8(&mut c, v),
        }
        c
    }
    fn need(v: &AnyV) -> usize {
        match v.sel {
            0 => 1,
            1 => 2,
            _ => 2 + v.m,
        }
    }
    fn fits_static(v: &AnyV, n: usize) -> bool {
        match v.sel {
            0 => true,
            _ => n - 1 >= 1,
        }
    }
    fn emplace<'a>(v: &AnyV, bytes: &'a mut [u8]) -> Result<&'a mut UE2, Error> {
        match v.sel {
            0 => UE2::new_in_place(bytes, UE2InitA),
            1 => UE2::new_in_place(bytes, UE2InitB(bl(v.f))),
            _ => with_vec_emplacer!(v, |e| UE2::new_in_place(bytes, UE2InitC(e))),
        }
    }
    fn assign<'a>(v: &AnyV, t: &'a mut UE2) -> Result<&'a mut UE2, Error> {
        match v.sel {
            0 => t.assign_in_place(UE2InitA),
            1 => t.assign_in_place(UE2InitB(bl(v.f))),
            _ => with_vec_emplacer!(v, |e| t.assign_in_place(UE2InitC(e))),
        }
    }
}

impl Build for U_E3 {
    const NSEL: u8 = 3;
    fn canon(v: &AnyV) -> Canon {
        let mut c = Canon::new();
        c.put(v.sel);
        match v.sel {
            0 => {}
            1 => {
                c.put(b8(v.f));
                c.put16(v.b);
            }
            _ => {
                c.put(v.a);
                canon_vec_u8(&mut c, v);
            }
        }
        c
    }
    fn need(v: &AnyV) -> usize {
        match v.sel {
            0 => 2,
            1 => 6,
            _ => ce(4 + v.m, 2),
        }
    }
    fn fits_static(v: &AnyV, n: usize) -> bool {
        let dn = fl(n - 2, 2);
        match v.sel {
            0 => true,
            1 => dn >= 4,
            _ => dn >= 2,
        }
    }
    fn emplace<'a>(v: &AnyV, bytes: &'a mut [u8]) -> Result<&'a mut UE3, Error> {
        match v.sel {
            0 => UE3::new_in_place(bytes, UE3InitA),
            1 => UE3::new_in_place(bytes, UE3InitB(bl(v.f), v.b)),
            _ => with_vec_emplacer!(v, |e| UE3::new_in_place(bytes, UE3InitC { x: v.a, v: e })),
        }
    }
    fn assign<'a>(v: &AnyV, t: &'a mut UE3) -> Result<&'a mut UE3, Error> {
        match v.sel {
            0 => t.assign_in_place(UE3InitA),
            1 => t.assign_in_place(UE3InitB(bl(v.f), v.b)),
            _ => with_vec_emplacer!(v, |e| t.assign_in_place(UE3InitC { x: v.a, v: e })),
        }
    }
}

impl Build for U_E4 {
    const NSEL: u8 = 2;
    fn canon(v: &AnyV) -> Canon {
        let mut c = Canon::new();
        c.put(v.sel);
        if v.sel == 1 {
            c.put(v.a);
            c.put16(v.b);
            canon_vec_u8(&mut c, v);
        }
        c
    }
    fn need(v: &AnyV) -> usize {
        match v.sel {
            0 => 2,
            _ => ce(7 + v.m, 2),
        }
    }
    fn fits_static(v: &AnyV, n: usize) -> bool {
        let dn = fl(n - 2, 2);
        match v.sel {
            0 => true,
            _ => dn >= 6,
        }
    }
    fn emplace<'a>(v: &AnyV, bytes: &'a mut [u8]) -> Result<&'a mut UE4, Error> {
        match v.sel {
            0 => UE4::new_in_place(bytes, UE4InitA),
            _ => with_vec_emplacer!(v, |e| UE4::new_in_place(bytes, UE4InitS(US1Init { a: v.a, b: v.b, c: e }))),
        }
    }
    fn assign<'a>(v: &AnyV, t: &'a mut UE4) -> Result<&'a mut UE4, Error> {
        match v.sel {
            0 => t.assign_in_place(UE4InitA),
            _ => with_vec_emplacer!(v, |e| t.assign_in_place(UE4InitS(US1Init { a: v.a, b: v.b, c: e }))),
        }
    }
}

impl Build for U_E6 {
    const NSEL: u8 = 4;
    fn canon(v: &AnyV) -> Canon {
        let mut c = Canon::new();
        match v.sel {
            0 => c.put(0),
            1 => {
                c.put(1);
                c.put(0);
            }
            2 => {
                c.put(1);
                c.put(1);
                c.put(b8(v.f));
            }
            _ => {
                c.put(1);
                c.put(2);
                canon_vec_u8(&mut c, v);
            }
        }
        c
    }
    fn need(v: &AnyV) -> usize {
        match v.sel {
            0 => 1,
            1 => 2,
            2 => 3,
            _ => 3 + v.m,
        }
    }
    fn fits_static(v: &AnyV, n: usize) -> bool {
        // the outer variant N needs the inner enum's MIN_SIZE (1 byte) of data
        v.sel == 0 || n >= 2
    }
    fn nested_refusal(v: &AnyV, n: usize) -> bool {
        // outer N fits (n >= 2) but the inner variant B / C needs one more data byte
        v.sel >= 2 && n == 2
    }
    fn emplace<'a>(v: &AnyV, bytes: &'a mut [u8]) -> Result<&'a mut UE6, Error> {
        match v.sel {
            0 => UE6::new_in_place(bytes, UE6InitA),
            1 => UE6::new_in_place(bytes, UE6InitN(UE2InitA)),
            2 => UE6::new_in_place(bytes, UE6InitN(UE2InitB(bl(v.f)))),
            _ => with_vec_emplacer!(v, |e| UE6::new_in_place(bytes, UE6InitN(UE2InitC(e)))),
        }
    }
    fn assign<'a>(v: &AnyV, t: &'a mut UE6) -> Result<&'a mut UE6, Error> {
        match v.sel {
            0 => t.assign_in_place(UE6InitA),
            1 => t.assign_in_place(UE6InitN(UE2InitA)),
            2 => t.assign_in_place(UE6InitN(UE2InitB(bl(v.f)))),
            _ => with_vec_emplacer!(v, |e| t.assign_in_place(UE6InitN(UE2InitC(e)))),
        }
    }
}

impl Build for U_PE {
    const NSEL: u8 = 3;
    fn canon(v: &AnyV) -> Canon {
        let mut c = Canon::new();
        c.put(v.sel);
        match v.sel {
            0 => {}
            1 => c.put16(v.b),
            _ => {
                c.put16(v.b);
                c.put(v.m as u8);
                let mut i = 0;
                while i < v.m {
                    c.put16(v.it[i] as u16 * 257);
                    i += 1;
                }
            }
        }
        c
    }
    fn need(v: &AnyV) -> usize {
        match v.sel {
            0 => 1,
            1 => 3,
            _ => 5 + 2 * v.m,
        }
    }
    fn fits_static(v: &AnyV, n: usize) -> bool {
        match v.sel {
            0 => true,
            1 => n - 1 >= 2,
            _ => n - 1 >= 4,
        }
    }
    fn emplace<'a>(v: &AnyV, bytes: &'a mut [u8]) -> Result<&'a mut PUE, Error> {
        let it = v.it;
        match v.sel {
            0 => PUE::new_in_place(bytes, PUEInitA),
            1 => PUE::new_in_place(bytes, PUEInitB(le::U16::from(v.b))),
            _ => PUE::new_in_place(
                bytes,
                PUEInitC(PUSInit {
                    a: le::U16::from(v.b),
                    b: vec::FromIterator((0..v.m).map(move |i| le::U16::from(it[i] as u16 * 257))),
                }),
            ),
        }
    }
    fn assign<'a>(v: &AnyV, t: &'a mut PUE) -> Result<&'a mut PUE, Error> {
        let it = v.it;
        match v.sel {
            0 => t.assign_in_place(PUEInitA),
            1 => t.assign_in_place(PUEInitB(le::U16::from(v.b))),
            _ => t.assign_in_place(PUEInitC(PUSInit {
                a: le::U16::from(v.b),
                b: vec::FromIterator((0..v.m).map(move |i| le::U16::from(it[i] as u16 * 257))),
            })),
        }
    }
}
