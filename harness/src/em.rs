//! Constructing harness families:
//!   emplace (C03, C15, C14)  new_in_place of an arbitrary value into an arbitrary buffer
//!                            (any length, any address residue, garbage contents)
//!   default (C20, C15)       default_in_place
//!   assign  (C18, C14)       assign_in_place on an arbitrary valid target
use crate::buf::A16;
use crate::build::*;
use crate::refm::*;
use crate::shapes::*;
use flatty::{error::ErrorKind, prelude::*, FlatWrap};

fn canaries<const CAP: usize>(now: &A16<CAP>, orig: &A16<CAP>, k: usize, n: usize) -> bool {
    let mut ok = true;
    let mut i = 0;
    while i < CAP {
        if (i < k || i >= k + n) && now.0[i] != orig.0[i] {
            ok = false;
        }
        i += 1;
    }
    ok
}

pub fn emplace<B: Build, const CAP: usize>() {
    let mut a: A16<CAP> = A16(kani::any());
    let orig = a;
    let v = AnyV::any();
    kani::assume(v.sel < B::NSEL && B::admissible(&v));
    let k: usize = kani::any();
    kani::assume(k < B::A);
    let n: usize = kani::any();
    kani::assume(n <= CAP && k + n <= CAP);
    let need = B::need(&v);
    let want = B::canon(&v);
    let lo = a.0.as_ptr() as usize + k;
    let ok;
    match B::emplace(&v, &mut a.0[k..k + n]) {
        Ok(t) => {
            ok = true;
            assert!(k == 0, "a misaligned buffer is refused");
            assert!(n >= need, "a buffer too small for the content is refused");
            let mut o = Obs::new(lo, lo + n);
            B::observe(t, &mut o);
            assert!(o.c.eq(&want), "the value reads back the content that was specified");
            assert!(o.inside && o.lencap, "the new value lies inside the buffer");
            assert!(t.size() == need, "size() is the extent of the specified content");
        }
        Err(e) => {
            ok = false;
            assert!(k != 0 || n < need, "an aligned buffer that can hold the content is accepted");
            if k == 0 {
                assert!(e.kind == ErrorKind::InsufficientSize, "too small a buffer is reported as InsufficientSize");
            } else if n >= need {
                assert!(e.kind == ErrorKind::BadAlign, "a misaligned buffer is reported as BadAlign");
            } else {
                assert!(e.kind == ErrorKind::BadAlign || e.kind == ErrorKind::InsufficientSize, "misaligned and too small: BadAlign or InsufficientSize");
            }
        }
    }
    if ok {
        let s = &a.0[k..k + n];
        assert!(<B::T>::validate(s).is_ok(), "the emplaced bytes validate");
        let d = B::decode(s);
        assert!(d.ok() && d.c.eq(&want) && d.ext == need, "the image is the documented encoding of the content");
    }
    assert!(canaries(&a, &orig, k, n), "no byte outside the buffer was written");
    kani::cover!(ok && want.n >= 1, "w:built-nontrivial");
    kani::cover!(!ok && k == 0, "w:refused-too-small");
    kani::cover!(!ok && k != 0 || B::A == 1, "w:refused-misaligned-or-align1");
}

pub fn default<B: Build, const CAP: usize>()
where
    B::T: FlatDefault,
{
    let mut a: A16<CAP> = A16(kani::any());
    let orig = a;
    let n: usize = kani::any();
    kani::assume(n <= CAP);
    let dv = B::default_v();
    let need = B::need(&dv);
    let want = B::canon(&dv);
    let lo = a.0.as_ptr() as usize;
    let ok;
    match <B::T>::default_in_place(&mut a.0[..n]) {
        Ok(t) => {
            ok = true;
            assert!(n >= need, "a buffer too small for the default value is refused");
            let mut o = Obs::new(lo, lo + n);
            B::observe(t, &mut o);
            assert!(o.c.eq(&want), "default_in_place yields the documented default state");
            assert!(t.size() == need, "the default value has the minimal size()");
        }
        Err(e) => {
            ok = false;
            assert!(n < need, "a buffer that can hold the default value is accepted");
            assert!(e.kind == ErrorKind::InsufficientSize, "too small a buffer is reported as InsufficientSize");
        }
    }
    if ok {
        let s = &a.0[..n];
        assert!(<B::T>::validate(s).is_ok(), "the default value's bytes validate");
        let d = B::decode(s);
        assert!(d.ok() && d.c.eq(&want) && d.ext == need, "the default image does not depend on prior buffer contents");
        // FlatWrap::default_in_place agrees
        let mut b: A16<CAP> = A16(kani::any());
        let w = FlatWrap::<B::T, &mut [u8]>::default_in_place(&mut b.0[..n]);
        match w {
            Ok(w) => {
                let lo2 = 0usize;
                let mut o = Obs::new(0, usize::MAX);
                B::observe(&*w, &mut o);
                assert!(o.c.eq(&want), "FlatWrap::default_in_place yields the same default state");
            }
            Err(_) => assert!(false, "FlatWrap::default_in_place agrees with default_in_place"),
        }
    }
    assert!(canaries(&a, &orig, 0, n), "no byte outside the buffer was written");
    kani::cover!(ok && n > need, "w:default-with-spare-bytes");
    kani::cover!(!ok, "w:refused-too-small");
}

/// for sized shapes: default_in_place equals `Default::default()` emplaced as a literal
pub fn default_sized<B: Build, const CAP: usize>()
where
    B::T: FlatDefault + Default + Sized,
{
    let mut a: A16<CAP> = A16(kani::any());
    let mut b: A16<CAP> = A16(kani::any());
    let n = B::MIN;
    let r1 = <B::T>::default_in_place(&mut a.0[..n]).is_ok();
    let r2 = <B::T>::new_in_place(&mut b.0[..n], <B::T>::default()).is_ok();
    assert!(r1 && r2, "a buffer of exactly SIZE bytes is accepted");
    let d1 = B::decode(&a.0[..n]);
    let d2 = B::decode(&b.0[..n]);
    assert!(d1.ok() && d2.ok() && d1.c.eq(&d2.c), "default_in_place equals Default::default()");
    assert!(d1.c.eq(&B::canon(&B::default_v())), "and equals the documented default");
}

pub fn assign<B: Build, const CAP: usize>() {
    let mut a: A16<CAP> = A16(kani::any());
    let orig = a;
    let n: usize = kani::any();
    kani::assume(n <= CAP);
    let d0 = B::decode(&a.0[..n]);
    kani::assume(d0.ok());
    let v = AnyV::any();
    kani::assume(v.sel < B::NSEL && B::admissible(&v));
    let want = B::canon(&v);
    let ok;
    {
        let t = match <B::T>::from_mut_bytes(&mut a.0[..n]) {
            Ok(t) => t,
            Err(_) => return, // C02's obligation
        };
        ok = B::assign(&v, t).is_ok();
    }
    let s = &a.0[..n];
    let d1 = B::decode(s);
    if ok {
        assert!(d1.ok() && d1.c.eq(&want), "a successful assignment stores the new content");
    } else {
        if B::nested_refusal(&v, n) {
            // recorded as known finding D17 (known_findings.json): reported under its own name
            assert!(<B::T>::validate(s).is_ok() && d1.ok(), "[D17] nested unsized enum: inner initialiser refused after the outer tag was written; target still validates");
            return;
        }
        assert!(<B::T>::validate(s).is_ok(), "after a failed assignment the target still validates");
        assert!(d1.ok(), "after a failed assignment the target is still well formed");
        if !B::fits_static(&v, n) {
            assert!(d1.c.eq(&d0.c), "a target with too little room for the new variant is left unchanged");
        }
        // it can be inspected, measured and assigned again without panicking
        let mut a2 = a;
        if let Ok(t2) = <B::T>::from_mut_bytes(&mut a2.0[..n]) {
            let lo = 0usize;
            let mut o = Obs::new(0, usize::MAX);
            B::observe(t2, &mut o);
            let _ = t2.size();
            let _ = B::assign(&v, t2).is_ok();
        }
    }
    assert!(canaries(&a, &orig, 0, n), "no byte outside the target's buffer was written");
    kani::cover!(ok && want.n >= 1, "w:assigned-nontrivial");
    kani::cover!(!ok, "w:assignment-refused");
    kani::cover!(!ok && !B::fits_static(&v, n), "o:refused-by-static-size");
}

macro_rules! em {
    ($shape:ident, $cap:literal, $unw:literal) => {
        #[allow(non_snake_case)]
        pub mod $shape {
            #[kani::proof]
            #[kani::unwind($unw)]
            fn emplace() {
                super::emplace::<crate::shapes::$shape, $cap>()
            }
            #[kani::proof]
            #[kani::unwind($unw)]
            fn default() {
                super::default::<crate::shapes::$shape, $cap>()
            }
        }
    };
}
macro_rules! asg {
    ($shape:ident, $m:ident, $cap:literal, $unw:literal) => {
        #[allow(non_snake_case)]
        pub mod $m {
            #[kani::proof]
            #[kani::unwind($unw)]
            fn assign() {
                super::assign::<crate::shapes::$shape, $cap>()
            }
        }
    };
}
macro_rules! ds {
    ($shape:ident, $m:ident, $cap:literal, $unw:literal) => {
        #[allow(non_snake_case)]
        pub mod $m {
            #[kani::proof]
            #[kani::unwind($unw)]
            fn default_sized() {
                super::default_sized::<crate::shapes::$shape, $cap>()
            }
        }
    };
}

// shape, buffer bytes (need of the largest value + alignment + 1 spare), unwind (bytes + 2)
em!(S_U16, 5, 7);
em!(S_SB, 9, 11);
em!(S_SS1, 12, 14);
em!(S_SE1, 12, 14);
em!(S_CE, 3, 5);
em!(S_SE16, 7, 9);
em!(S_PS, 9, 11);
em!(S_PE, 10, 12);
em!(V_U8, 6, 8);
em!(V_U8L32, 12, 14);
em!(V_U16, 10, 12);
em!(V_SB, 16, 18);
em!(V_A3, 11, 13);
em!(V_P, 10, 12);
em!(STR8, 6, 8);
em!(STR16, 8, 10);
em!(STRP, 7, 9);
em!(X_U8, 8, 10);
em!(X_U16, 14, 16);
em!(X_V, 10, 12);
em!(U_S1, 11, 13);
em!(U_S2, 13, 15);
em!(U_S6, 13, 15);
em!(U_S3, 7, 9);
em!(U_S4, 9, 11);
em!(U_PS, 12, 14);
em!(U_E1, 20, 22);
em!(U_E5, 20, 22);
em!(U_E6, 8, 10);
em!(X_U8P, 10, 12);
em!(U_E2, 7, 9);
em!(U_E3, 10, 12);
em!(U_E4, 13, 15);
em!(U_PE, 13, 15);

ds!(S_U16, S_U16_d, 4, 6);
ds!(S_SB, S_SB_d, 8, 10);
ds!(S_SS1, S_SS1_d, 8, 10);
ds!(S_SE1, S_SE1_d, 8, 10);
ds!(S_CE, S_CE_d, 2, 4);
ds!(S_SE16, S_SE16_d, 4, 6);
ds!(S_PS, S_PS_d, 8, 10);
ds!(S_PE, S_PE_d, 8, 10);

asg!(V_U8, V_U8_a, 5, 7);
asg!(V_A3, V_A3_a, 9, 11);
asg!(STR8, STR8_a, 5, 7);
asg!(X_U8, X_U8_a, 6, 8);
asg!(U_S1, U_S1_a, 10, 12);
asg!(U_S2, U_S2_a, 12, 14);
asg!(U_S3, U_S3_a, 6, 8);
asg!(U_E1, U_E1_a, 16, 18);
asg!(U_E5, U_E5_a, 16, 18);
asg!(U_E6, U_E6_a, 7, 9);
asg!(U_E2, U_E2_a, 6, 8);
asg!(U_E3, U_E3_a, 10, 12);
asg!(U_E4, U_E4_a, 12, 14);
asg!(U_PE, U_PE_a, 9, 11);
