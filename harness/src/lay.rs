//! C04: layout constants and the compiler's view of mapped values; C17: portable composites.
//! Field / payload / element offsets are decided by the `accept` family (C02): the content read
//! through accessors equals the content decoded at the reference offsets for *every* byte
//! string, which pins every offset. Here: ALIGN / MIN_SIZE / SIZE against the hand-applied C
//! rule, and align_of_val / size_of_val of every mapped value for every slice length.
use crate::buf::A16;
use crate::build::*;
use crate::refm::*;
use crate::shapes::*;
use core::mem::{align_of, align_of_val, size_of, size_of_val};
use flatty::{prelude::*, traits::FlatBase, traits::FlatSized};

pub fn layout<S: Shape, const CAP: usize>() {
    assert!(<S::T as FlatBase>::ALIGN == S::A, "ALIGN equals the reference C-layout alignment");
    assert!(<S::T as FlatBase>::MIN_SIZE == S::MIN, "MIN_SIZE equals the reference minimum size");
    assert!(S::MIN % S::A == 0, "MIN_SIZE is a multiple of ALIGN");
    let a: A16<CAP> = A16(kani::any());
    let n: usize = kani::any();
    kani::assume(n <= CAP);
    if let Ok(v) = <S::T>::from_bytes(&a.0[..n]) {
        assert!(align_of_val(v) == S::A, "the compiler's alignment of the mapped value is ALIGN");
        assert!(size_of_val(v) <= n, "a mapped value never claims more bytes than the slice");
        assert!(size_of_val(v) % S::A == 0, "size_of_val is a multiple of ALIGN");
        assert!(v.size() <= size_of_val(v), "size() lies inside the mapped value");
        assert!(v.as_bytes().len() == size_of_val(v), "as_bytes covers exactly the mapped value");
        assert!(size_of_val(v) + S::A > fl(n, S::A) || size_of_val(v) >= S::MIN, "the view is the largest the slice allows");
        kani::cover!(size_of_val(v) < n, "o:slice-not-multiple-of-align");
    }
    kani::cover!(true, "w:reached");
}

pub fn layout_sized<S: Shape>()
where
    S::T: Sized + FlatSized,
{
    assert!(size_of::<S::T>() == S::MIN && <S::T as FlatSized>::SIZE == S::MIN, "SIZE equals size_of and the reference size");
    assert!(align_of::<S::T>() == S::A && <S::T as FlatBase>::ALIGN == S::A, "ALIGN equals align_of and the reference alignment");
    kani::cover!(true, "w:reached");
}

/// C17: a portable value is built at every address offset; its image is the padding-free
/// serialisation (the reference decoder reads explicit byte orders at prefix-sum offsets).
pub fn portable<B: Build, const CAP: usize>() {
    assert!(<B::T as FlatBase>::ALIGN == 1 && B::A == 1, "portable types have alignment 1");
    let mut a: A16<CAP> = A16(kani::any());
    let v = AnyV::any();
    kani::assume(v.sel < B::NSEL && B::admissible(&v));
    let k: usize = kani::any();
    kani::assume(k < 4);
    let n: usize = kani::any();
    kani::assume(n <= CAP && k + n <= CAP);
    let need = B::need(&v);
    let want = B::canon(&v);
    let ok = match B::emplace(&v, &mut a.0[k..k + n]) {
        Ok(t) => {
            assert!(t.size() == need, "size() is the sum of the parts (no padding)");
            true
        }
        Err(_) => false,
    };
    assert!(ok == (n >= need), "a portable value can be built at any address as soon as the bytes suffice");
    if ok {
        let s = &a.0[k..k + n];
        let d = B::decode(s);
        assert!(d.ok() && d.c.eq(&want) && d.ext == need, "the image is the reference serialisation of the content");
        match <B::T>::from_bytes(s) {
            Ok(t) => {
                let mut o = Obs::new(0, usize::MAX);
                B::observe(t, &mut o);
                assert!(o.c.eq(&want), "maps back at any address with the same content");
            }
            Err(_) => assert!(false, "maps back at any address"),
        }
    }
    kani::cover!(ok && k % 2 == 1 && want.n > 2, "w:built-at-odd-address");
}

macro_rules! lay {
    ($shape:ident, $m:ident, $cap:literal, $unw:literal) => {
        #[allow(non_snake_case)]
        pub mod $m {
            #[kani::proof]
            #[kani::unwind($unw)]
            fn layout() {
                super::layout::<crate::shapes::$shape, $cap>()
            }
        }
    };
}
macro_rules! lays {
    ($shape:ident, $m:ident) => {
        #[allow(non_snake_case)]
        pub mod $m {
            #[kani::proof]
            #[kani::unwind(4)]
            fn layout_sized() {
                super::layout_sized::<crate::shapes::$shape>()
            }
        }
    };
}
macro_rules! port {
    ($shape:ident, $m:ident, $cap:literal, $unw:literal) => {
        #[allow(non_snake_case)]
        pub mod $m {
            #[kani::proof]
            #[kani::unwind($unw)]
            fn portable() {
                super::portable::<crate::shapes::$shape, $cap>()
            }
        }
    };
}

lays!(S_U16, S_U16_l);
lays!(S_BOOL, S_BOOL_l);
lays!(S_BOOL3, S_BOOL3_l);
lays!(S_SB, S_SB_l);
lays!(S_SB2, S_SB2_l);
lays!(S_SS1, S_SS1_l);
lays!(S_SS2, S_SS2_l);
lays!(S_SE1, S_SE1_l);
lays!(S_CE, S_CE_l);
lays!(S_SE16, S_SE16_l);
lays!(S_PS, S_PS_l);
lays!(S_PE, S_PE_l);

lay!(V_U8, V_U8_l, 8, 10);
lay!(V_U8L32, V_U8L32_l, 12, 14);
lay!(V_U16, V_U16_l, 10, 12);
lay!(V_SB, V_SB_l, 14, 16);
lay!(V_A3, V_A3_l, 12, 14);
lay!(V_P, V_P_l, 10, 12);
lay!(STR8, STR8_l, 5, 7);
lay!(STR16, STR16_l, 6, 8);
lay!(X_U8, X_U8_l, 6, 8);
lay!(X_U16, X_U16_l, 8, 10);
lay!(X_V8L16, X_V8L16_l, 8, 10);
lay!(U_S1, U_S1_l, 12, 14);
lay!(U_S2, U_S2_l, 14, 16);
lay!(U_S5, U_S5_l, 12, 14);
lay!(U_S6, U_S6_l, 12, 14);
lay!(U_PS, U_PS_l, 10, 12);
lay!(U_E1, U_E1_l, 16, 18);
lay!(U_E5, U_E5_l, 18, 20);
lay!(X_U8P, X_U8P_l, 8, 10);
lay!(U_E2, U_E2_l, 8, 10);
lay!(U_E3, U_E3_l, 12, 14);
lay!(U_E4, U_E4_l, 14, 16);
lay!(U_PE, U_PE_l, 10, 12);

port!(S_PS, S_PS_p, 12, 14);
port!(S_PE, S_PE_p, 12, 14);
port!(V_P, V_P_p, 12, 14);
port!(STRP, STRP_p, 9, 11);
port!(U_PS, U_PS_p, 13, 15);
port!(U_PE, U_PE_p, 14, 16);
port!(X_U8P, X_U8P_p, 12, 14);
