//! One `read` / `poll_read` of the buffer layer (`ReadBuffer` / `AsyncReadBuffer` for
//! `IoBuffer`) from an arbitrary window state: bytes are appended to the occupied part in
//! order, the window advances only by what the pipe delivered, `Pending` consumes nothing,
//! and OutOfMemory is reported exactly when the buffer is full from its start.
use crate::pipes::*;
use core::pin::Pin;
use core::task::{Context, Poll};
use flatty_io::{AsyncReadBuffer, IoBuffer, ReadBuffer};
use std::io::ErrorKind as IoKind;

fn setup<const CAP: usize>(b: &mut IoBuffer<impl Sized>, data0: &[u8; CAP], start: usize, end: usize) {
    let d = b.verif_data_mut();
    let mut i = 0;
    while i < CAP {
        d[i] = data0[i];
        i += 1;
    }
    b.verif_set_window(start, end);
}

/// 0 = Ready(Ok(n)), 1 = Ready(Err(OutOfMemory)), 2 = Ready(Err(other)), 3 = Pending
fn post<const CAP: usize, const R: usize>(
    outcome: u8,
    n: usize,
    data0: &[u8; CAP],
    src: &[u8; R],
    start: usize,
    end: usize,
    win: (usize, usize, usize),
    pos: usize,
    data1: &[u8; CAP],
) {
    let (s1, e1, c1) = win;
    let occ = end - start;
    assert!(c1 == CAP && s1 <= e1 && e1 <= CAP, "window stays inside the buffer");
    let occ1 = e1 - s1;
    assert!(occ1 == occ + pos, "the occupied part grows exactly by what was taken from the pipe");
    if outcome == 0 {
        assert!(n == pos, "the reported count is the number of bytes taken from the pipe");
    } else {
        assert!(pos == 0, "nothing is taken from the pipe unless the call reports it (Pending / Err consume nothing)");
    }
    if outcome == 1 {
        assert!(start == 0 && end == CAP, "OutOfMemory exactly when the buffer is full from its start");
    }
    if start == 0 && end == CAP {
        assert!(outcome == 1, "a full buffer is reported as OutOfMemory");
    }
    let mut same = true;
    let mut i = 0;
    while i < CAP {
        if i < occ1 {
            let want = if i < occ { data0[start + i] } else { src[i - occ] };
            if data1[s1 + i] != want {
                same = false;
            }
        }
        i += 1;
    }
    assert!(same, "buffered bytes keep their order; new bytes are appended behind them");
}

pub fn read_step<const CAP: usize, const R: usize, const A: usize>() {
    let data0: [u8; CAP] = kani::any();
    let src: [u8; R] = kani::any();
    let src_len: usize = kani::any();
    kani::assume(src_len <= R);
    let start: usize = kani::any();
    let end: usize = kani::any();
    kani::assume(start <= end && end <= CAP && start % A == 0 && (start != end || start == 0));
    let faults: bool = kani::any();
    let pipe = Source::<R> { data: src, len: src_len, pos: 0, calls: 0, faults, failed: false, last_after_fail: false };
    let mut b = IoBuffer::new(pipe, CAP, A);
    setup(&mut b, &data0, start, end);
    let (outcome, n) = match ReadBuffer::read(&mut b) {
        Ok(n) => (0u8, n),
        Err(e) => {
            let k = e.kind() == IoKind::OutOfMemory;
            core::mem::forget(e);
            (if k { 1 } else { 2 }, 0)
        }
    };
    let win = b.verif_window();
    let (pos, calls) = {
        let p = b.verif_pipe();
        (p.pos, p.calls)
    };
    assert!(calls <= 1, "one pipe read per call");
    let mut data1 = [0u8; CAP];
    {
        let d = b.verif_data_mut();
        let mut i = 0;
        while i < CAP {
            data1[i] = d[i];
            i += 1;
        }
    }
    post::<CAP, R>(outcome, n, &data0, &src, start, end, win, pos, &data1);
    kani::cover!(outcome == 0 && n > 0 && start > 0 && win.0 == 0, "w:compacted-then-read");
    kani::cover!(outcome == 1, "w:out-of-memory");
}

pub fn poll_read_step<const CAP: usize, const R: usize, const A: usize>() {
    let data0: [u8; CAP] = kani::any();
    let src: [u8; R] = kani::any();
    let src_len: usize = kani::any();
    kani::assume(src_len <= R);
    let start: usize = kani::any();
    let end: usize = kani::any();
    kani::assume(start <= end && end <= CAP && start % A == 0 && (start != end || start == 0));
    let faults: bool = kani::any();
    let pipe = ASource::<R> {
        inner: Source { data: src, len: src_len, pos: 0, calls: 0, faults, failed: false, last_after_fail: false },
        pending_budget: 2,
        pendings: 0,
        pending_this_poll: false,
    };
    let mut b = IoBuffer::new(pipe, CAP, A);
    setup(&mut b, &data0, start, end);
    let waker = futures::task::noop_waker();
    let mut cx = Context::from_waker(&waker);
    let (outcome, n) = match AsyncReadBuffer::poll_read(Pin::new(&mut b), &mut cx) {
        Poll::Ready(Ok(n)) => (0u8, n),
        Poll::Ready(Err(e)) => {
            let k = e.kind() == IoKind::OutOfMemory;
            core::mem::forget(e);
            (if k { 1 } else { 2 }, 0)
        }
        Poll::Pending => (3, 0),
    };
    let win = b.verif_window();
    let (pos, pendings) = {
        let p = b.verif_pipe();
        (p.inner.pos, p.pendings)
    };
    assert!((outcome == 3) == (pendings > 0), "Pending exactly when the pipe answered Pending");
    let mut data1 = [0u8; CAP];
    {
        let d = b.verif_data_mut();
        let mut i = 0;
        while i < CAP {
            data1[i] = d[i];
            i += 1;
        }
    }
    post::<CAP, R>(outcome, n, &data0, &src, start, end, win, pos, &data1);
    kani::cover!(outcome == 3, "w:pending");
    kani::cover!(outcome == 0 && n > 0 && start > 0 && win.0 == 0, "w:compacted-then-read");
}

pub mod a1 {
    #[kani::proof]
    #[kani::unwind(10)]
    fn read_step() {
        super::read_step::<8, 4, 1>()
    }
    #[kani::proof]
    #[kani::unwind(10)]
    fn poll_read_step() {
        super::poll_read_step::<8, 4, 1>()
    }
}
pub mod a4 {
    #[kani::proof]
    #[kani::unwind(14)]
    fn read_step() {
        super::read_step::<12, 4, 4>()
    }
    #[kani::proof]
    #[kani::unwind(14)]
    fn poll_read_step() {
        super::poll_read_step::<12, 4, 4>()
    }
}
