//! Reference model: an independent, straight-line description of the documented flat
//! format. Nothing here calls into the library; offsets and sizes are literals obtained
//! by applying the plain C layout rule by hand (each shape documents its layout).
//!
//! A decoder walks the bytes of the slice it is given and produces
//!  * `short`  – a structural problem: the slice is too short for what its headers announce
//!               (the library must answer `InsufficientSize`, or a content error if one is
//!               also present),
//!  * `bad`    – bit mask of byte positions holding an invalid pattern (Bool not 0/1, enum
//!               tag out of range, malformed UTF-8) in any interpretable position,
//!  * `ext`    – the reference extent (`size()`): end of used data rounded up to the
//!               type's alignment,
//!  * `used`   – end of used data before rounding,
//!  * `c`      – the content in a canonical serialisation shared with `observe`.

pub const CN: usize = 24;

#[derive(Clone, Copy)]
pub struct Canon {
    pub n: usize,
    pub d: [u8; CN],
}

impl Canon {
    pub const fn new() -> Self {
        Canon { n: 0, d: [0; CN] }
    }
    #[inline]
    pub fn put(&mut self, x: u8) {
        if self.n < CN {
            self.d[self.n] = x;
        }
        self.n += 1;
    }
    pub fn put16(&mut self, x: u16) {
        self.put(x as u8);
        self.put((x >> 8) as u8);
    }
    pub fn put32(&mut self, x: u32) {
        self.put16(x as u16);
        self.put16((x >> 16) as u16);
    }
    pub fn put64(&mut self, x: u64) {
        self.put32(x as u32);
        self.put32((x >> 32) as u32);
    }
    /// Loop-free comparison of the first `n` bytes (keeps harness unwind bounds small).
    pub fn eq(&self, o: &Canon) -> bool {
        if self.n != o.n {
            return false;
        }
        let n = self.n;
        macro_rules! cmp {
            ($($i:literal)*) => { true $(&& ($i >= n || self.d[$i] == o.d[$i]))* };
        }
        cmp!(0 1 2 3 4 5 6 7 8 9 10 11 12 13 14 15 16 17 18 19 20 21 22 23)
    }
}

#[derive(Clone, Copy)]
pub struct Dec {
    pub short: bool,
    pub bad: u32,
    pub ext: usize,
    pub used: usize,
    /// FlexVec only: position where the slot of the next pushed item would start
    pub aux: usize,
    pub c: Canon,
}

impl Dec {
    pub const fn new() -> Self {
        Dec { short: false, bad: 0, ext: 0, used: 0, aux: 0, c: Canon::new() }
    }
    pub fn ok(&self) -> bool {
        !self.short && self.bad == 0
    }
    pub fn mark(&mut self, pos: usize) {
        if pos < 32 {
            self.bad |= 1u32 << pos;
        }
    }
    pub fn is_bad_at(&self, pos: usize) -> bool {
        pos < 32 && (self.bad >> pos) & 1 == 1
    }
}

/// What `observe` collects through the safe accessors of a mapped value.
pub struct Obs {
    pub c: Canon,
    pub lo: usize,
    pub hi: usize,
    /// every accessor pointer seen so far lies in `[lo, hi]` (ranges: start >= lo, end <= hi)
    pub inside: bool,
    /// every container seen so far reports len <= capacity
    pub lencap: bool,
}

impl Obs {
    pub fn new(lo: usize, hi: usize) -> Self {
        Obs { c: Canon::new(), lo, hi, inside: true, lencap: true }
    }
    pub fn range(&mut self, start: usize, bytes: usize) {
        if start < self.lo || start + bytes > self.hi {
            self.inside = false;
        }
    }
    pub fn at<T>(&mut self, r: &T) {
        self.range(r as *const T as usize, core::mem::size_of::<T>());
    }
    pub fn slice<T>(&mut self, s: &[T]) {
        self.range(s.as_ptr() as usize, core::mem::size_of::<T>() * s.len());
    }
    pub fn lc(&mut self, len: usize, cap: usize) {
        if len > cap {
            self.lencap = false;
        }
    }
}

// ---- arithmetic helpers, written with masks (the library divides) ----
#[inline]
pub const fn fl(x: usize, m: usize) -> usize {
    x & !(m - 1)
}
#[inline]
pub const fn ce(x: usize, m: usize) -> usize {
    (x + (m - 1)) & !(m - 1)
}
#[inline]
pub fn rd16(b: &[u8], o: usize) -> u16 {
    (b[o] as u16) | ((b[o + 1] as u16) << 8)
}
#[inline]
pub fn rd16be(b: &[u8], o: usize) -> u16 {
    (b[o + 1] as u16) | ((b[o] as u16) << 8)
}
#[inline]
pub fn rd32(b: &[u8], o: usize) -> u32 {
    (rd16(b, o) as u32) | ((rd16(b, o + 2) as u32) << 16)
}
#[inline]
pub fn rd32be(b: &[u8], o: usize) -> u32 {
    (rd16be(b, o + 2) as u32) | ((rd16be(b, o) as u32) << 16)
}
#[inline]
pub fn rd64(b: &[u8], o: usize) -> u64 {
    (rd32(b, o) as u64) | ((rd32(b, o + 4) as u64) << 32)
}
/// little-endian integer of `sz` bytes (1, 2, 4 or 8)
pub fn rd(b: &[u8], o: usize, sz: usize) -> u64 {
    match sz {
        1 => b[o] as u64,
        2 => rd16(b, o) as u64,
        4 => rd32(b, o) as u64,
        _ => rd64(b, o),
    }
}
pub const fn lmax(sz: usize) -> u64 {
    match sz {
        1 => 0xff,
        2 => 0xffff,
        4 => 0xffff_ffff,
        _ => u64::MAX,
    }
}

/// Reference UTF-8 check (RFC 3629, table 3-7 of the Unicode standard) as a byte-at-a-time
/// automaton: constant indices, symbolic state (cheap for the solver). Returns the index of
/// the first byte of the first malformed sequence, or `len` if `b[start..start+len]` is well
/// formed. The loop runs `len` times.
pub fn utf8_first_bad(b: &[u8], start: usize, len: usize) -> usize {
    let mut need: u8 = 0; // continuation bytes still expected
    let mut lo: u8 = 0x80; // admissible range of the next continuation byte
    let mut hi: u8 = 0xBF;
    let mut seq_start: usize = 0;
    let mut bad: usize = len;
    let mut done = false;
    let mut i = 0;
    while i < len {
        if !done {
            let x = b[start + i];
            if need == 0 {
                seq_start = i;
                if x < 0x80 {
                } else if x >= 0xC2 && x <= 0xDF {
                    need = 1;
                    lo = 0x80;
                    hi = 0xBF;
                } else if x == 0xE0 {
                    need = 2;
                    lo = 0xA0;
                    hi = 0xBF;
                } else if x == 0xED {
                    need = 2;
                    lo = 0x80;
                    hi = 0x9F;
                } else if x >= 0xE1 && x <= 0xEF {
                    need = 2;
                    lo = 0x80;
                    hi = 0xBF;
                } else if x == 0xF0 {
                    need = 3;
                    lo = 0x90;
                    hi = 0xBF;
                } else if x >= 0xF1 && x <= 0xF3 {
                    need = 3;
                    lo = 0x80;
                    hi = 0xBF;
                } else if x == 0xF4 {
                    need = 3;
                    lo = 0x80;
                    hi = 0x8F;
                } else {
                    bad = i;
                    done = true;
                }
            } else if x < lo || x > hi {
                bad = seq_start;
                done = true;
            } else {
                need -= 1;
                lo = 0x80;
                hi = 0xBF;
            }
        }
        i += 1;
    }
    if !done && need != 0 {
        // truncated sequence at the end
        bad = seq_start;
    }
    bad
}

// ---------------------------------------------------------------------------------
// Building blocks shared by the shape decoders. `b` is always the *view* of the value
// being decoded (already cut to the bytes the value may use), `base` is the offset of
// `b[0]` from the start of the outermost slice (for `bad` positions).
// ---------------------------------------------------------------------------------

/// Element decoders for FlatVec / FlexVec items and struct fields.
#[derive(Clone, Copy, PartialEq, Eq)]
pub enum El {
    U8,
    U16,
    U32,
    Bool,
    /// `[u8; 3]`
    A3,
    /// `{x: Bool, y: u16, z: Bool}`: x@0 y@2 z@4, size 6, align 2
    SB,
    /// portable le::U16 (2 bytes, align 1)
    LeU16,
    /// portable be::U32 (4 bytes, align 1)
    BeU32,
}

impl El {
    pub const fn size(self) -> usize {
        match self {
            El::U8 | El::Bool => 1,
            El::U16 | El::LeU16 => 2,
            El::A3 => 3,
            El::U32 | El::BeU32 => 4,
            El::SB => 6,
        }
    }
    pub const fn align(self) -> usize {
        match self {
            El::U8 | El::Bool | El::A3 | El::LeU16 | El::BeU32 => 1,
            El::U16 | El::SB => 2,
            El::U32 => 4,
        }
    }
}

pub fn dec_bool(b: &[u8], o: usize, base: usize, d: &mut Dec) {
    let v = b[o];
    if v > 1 {
        d.mark(base + o);
    }
    d.c.put(v);
}

pub fn dec_el(e: El, b: &[u8], o: usize, base: usize, d: &mut Dec) {
    match e {
        El::U8 => d.c.put(b[o]),
        El::U16 | El::LeU16 => d.c.put16(rd16(b, o)),
        El::U32 => d.c.put32(rd32(b, o)),
        El::BeU32 => d.c.put32(rd32be(b, o)),
        El::Bool => dec_bool(b, o, base, d),
        El::A3 => {
            d.c.put(b[o]);
            d.c.put(b[o + 1]);
            d.c.put(b[o + 2]);
        }
        El::SB => {
            dec_bool(b, o, base, d);
            d.c.put16(rd16(b, o + 2));
            dec_bool(b, o + 4, base, d);
        }
    }
}

/// FlatVec<E, L>: `len: L` at 0, elements from DATA_OFFSET = max(L size, E align),
/// alignment max(L align, E align). `b` = bytes available to the vector.
/// Returns the number of bytes used (unrounded) or None when short.
pub fn dec_vec(e: El, lsz: usize, lalign: usize, b: &[u8], base: usize, d: &mut Dec) -> Option<usize> {
    let esz = e.size();
    let al = if lalign > e.align() { lalign } else { e.align() };
    let doff = if lsz > e.align() { lsz } else { e.align() };
    if b.len() < doff {
        d.short = true;
        return None;
    }
    let room = fl(b.len() - doff, al);
    let len = rd(b, 0, lsz);
    // capacity = room / esz, clamped to L::MAX
    let mut cap: u64 = 0;
    let mut r = room;
    while r >= esz {
        r -= esz;
        cap += 1;
    }
    if cap > lmax(lsz) {
        cap = lmax(lsz);
    }
    if len > cap {
        d.short = true;
        return None;
    }
    let len = len as usize;
    d.c.put(len as u8);
    let mut i = 0;
    while i < len {
        dec_el(e, b, doff + i * esz, base, d);
        i += 1;
    }
    Some(doff + len * esz)
}

/// FlatString<L>: `len: L` at 0, bytes from L size, alignment = L align.
pub fn dec_str(lsz: usize, lalign: usize, b: &[u8], base: usize, d: &mut Dec) -> Option<usize> {
    if b.len() < lsz {
        d.short = true;
        return None;
    }
    let room = fl(b.len() - lsz, lalign);
    let len = rd(b, 0, lsz);
    let mut cap = room as u64;
    if cap > lmax(lsz) {
        cap = lmax(lsz);
    }
    if len > cap {
        d.short = true;
        return None;
    }
    let len = len as usize;
    d.c.put(len as u8);
    let fb = utf8_first_bad(b, lsz, len);
    if fb < len {
        // the malformed sequence starts at fb; it has at most 4 bytes
        let mut j = 0;
        while j < 4 {
            if fb + j < len {
                d.mark(base + lsz + fb + j);
            }
            j += 1;
        }
    }
    let mut i = 0;
    while i < len {
        d.c.put(b[lsz + i]);
        i += 1;
    }
    Some(lsz + len)
}
