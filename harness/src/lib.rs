//! Kani harness crate for agerasev/flatty (path dependencies on /repo).
//! Compiled by `cargo kani` from /repo's current working tree on every check run.
#![allow(dead_code, unused_imports, unused_variables, unused_mut, clippy::all)]

pub mod buf;
pub mod build;
pub mod refm;
pub mod shapes;
pub mod stubs;

#[cfg(kani)]
mod em;
#[cfg(kani)]
mod io_async;
#[cfg(kani)]
mod lay;
#[cfg(kani)]
mod io_blk;
#[cfg(kani)]
mod io_buf;
#[cfg(kani)]
mod pipes;
#[cfg(kani)]
mod port;
#[cfg(kani)]
mod ro;
#[cfg(kani)]
mod step;
#[cfg(kani)]
mod utf8;
