#![allow(dead_code, unused_imports, clippy::all)]
#[cfg(kani)]
mod probe {
    use flatty::{prelude::*, FlatVec, FlexVec};

    #[kani::proof]
    #[kani::unwind(10)]
    fn probe_vec() {
        let b: [u8; 8] = kani::any();
        let n: usize = kani::any();
        kani::assume(n <= 8);
        let r = FlatVec::<u8, u8>::from_bytes(&b[..n]);
        if let Ok(v) = r {
            assert!(v.len() <= v.capacity());
        }
        kani::cover!(r.is_ok());
    }
    #[kani::proof]
    #[kani::unwind(10)]
    fn probe_flex() {
        let b: [u8; 6] = kani::any();
        let n: usize = kani::any();
        kani::assume(n <= 6);
        let r = FlexVec::<u8, u8>::from_bytes(&b[..n]);
        kani::cover!(r.is_ok());
    }
}
