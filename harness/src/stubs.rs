//! Stub for `core::str::from_utf8` (DESIGN 3.x): core's validator is trusted and expensive for
//! CBMC (symbolic index, word-at-a-time fast path). Harnesses that are about *flatty's* use of
//! it (right byte range, right error offset) replace it by the reference automaton of `refm`.
//! `Utf8Error` has no public constructor, so error values are produced by core's own
//! `from_utf8_mut` on concrete buffers (constant-folded by symbolic execution).
//! `utf8::ref_vs_core` ties the automaton to core's real validator.
use crate::refm::utf8_first_bad;
use core::str::Utf8Error;

fn err_at(k: usize) -> Utf8Error {
    macro_rules! mk {
        ($($n:literal => [$($b:expr),*]),* $(,)?) => {
            match k {
                $($n => { let mut a = [$($b),*]; match core::str::from_utf8_mut(&mut a) { Err(e) => e, Ok(_) => unreachable!() } })*
                _ => { let mut a = [0xFFu8]; match core::str::from_utf8_mut(&mut a) { Err(e) => e, Ok(_) => unreachable!() } }
            }
        };
    }
    mk!(
        0 => [0xFFu8],
        1 => [b'a', 0xFFu8],
        2 => [b'a', b'a', 0xFFu8],
        3 => [b'a', b'a', b'a', 0xFFu8],
        4 => [b'a', b'a', b'a', b'a', 0xFFu8],
        5 => [b'a', b'a', b'a', b'a', b'a', 0xFFu8],
        6 => [b'a', b'a', b'a', b'a', b'a', b'a', 0xFFu8],
        7 => [b'a', b'a', b'a', b'a', b'a', b'a', b'a', 0xFFu8],
        8 => [b'a', b'a', b'a', b'a', b'a', b'a', b'a', b'a', 0xFFu8],
        9 => [b'a', b'a', b'a', b'a', b'a', b'a', b'a', b'a', b'a', 0xFFu8],
        10 => [b'a', b'a', b'a', b'a', b'a', b'a', b'a', b'a', b'a', b'a', 0xFFu8],
        11 => [b'a', b'a', b'a', b'a', b'a', b'a', b'a', b'a', b'a', b'a', b'a', 0xFFu8],
        12 => [b'a', b'a', b'a', b'a', b'a', b'a', b'a', b'a', b'a', b'a', b'a', b'a', 0xFFu8],
    )
}

pub fn from_utf8_stub(v: &[u8]) -> Result<&str, Utf8Error> {
    let fb = utf8_first_bad(v, 0, v.len());
    if fb >= v.len() {
        Ok(unsafe { core::str::from_utf8_unchecked(v) })
    } else {
        // strings in stubbed harnesses are at most 12 bytes long
        assert!(fb <= 12);
        Err(err_at(fb))
    }
}
