//! Histories by one inductive step (DESIGN 3.4): from an arbitrary valid image, one
//! arbitrary operation with arbitrary arguments, compared with a plain model.
//!   vec_step / str_step (C11, C13, C05)   FlatVec / FlatString vs capacity-bounded Vec / String
//!   flex_step           (C12, C13, C05)   FlexVec vs a sequence of items
//! Every harness keeps the slice inside a larger array and checks the bytes around it (C14).
use crate::buf::A16;
use crate::refm::*;
use crate::shapes::*;
use flatty::{flat_vec, portable::le, prelude::*, vec, FlatString, FlatVec, FlexVec};

fn tail_unchanged<const CAP: usize>(now: &A16<CAP>, orig: &A16<CAP>, n: usize) -> bool {
    let mut ok = true;
    let mut i = 0;
    while i < CAP {
        if i >= n && now.0[i] != orig.0[i] {
            ok = false;
        }
        i += 1;
    }
    ok
}

/// model of a vector: up to 8 elements, each held as u32
#[derive(Clone, Copy)]
struct MV {
    len: usize,
    it: [u32; 8],
}
impl MV {
    fn eq(&self, o: &MV) -> bool {
        if self.len != o.len {
            return false;
        }
        let n = self.len;
        macro_rules! cmp {
            ($($i:literal)*) => { true $(&& ($i >= n || self.it[$i] == o.it[$i]))* };
        }
        cmp!(0 1 2 3 4 5 6 7)
    }
}

pub trait VecElem: Shape {
    type E: Flat + Sized + Copy + Clone;
    type L: Flat + flatty::vec::Length;
    /// bytes before the elements / element size / alignment (reference literals)
    const DO: usize;
    const ESZ: usize;
    const LMAX: usize;
    fn to_u32(e: &Self::E) -> u32;
    fn from_u32(x: u32) -> Self::E;
    fn vec(t: &mut Self::T) -> &mut FlatVec<Self::E, Self::L>;
}
macro_rules! vec_elem {
    ($S:ident, $E:ty, $L:ty, $do:expr, $esz:expr, $lmax:expr, |$e:ident| $to:expr, |$x:ident| $from:expr) => {
        impl VecElem for $S {
            type E = $E;
            type L = $L;
            const DO: usize = $do;
            const ESZ: usize = $esz;
            const LMAX: usize = $lmax;
            fn to_u32($e: &$E) -> u32 {
                $to
            }
            fn from_u32($x: u32) -> $E {
                $from
            }
            fn vec(t: &mut FlatVec<$E, $L>) -> &mut FlatVec<$E, $L> {
                t
            }
        }
    };
}
vec_elem!(V_U8, u8, u8, 1, 1, 255, |e| *e as u32, |x| x as u8);
vec_elem!(V_U16, u16, u8, 2, 2, 255, |e| *e as u32, |x| x as u16);
vec_elem!(V_U8L32, u8, u32, 4, 1, 0xffff_ffff, |e| *e as u32, |x| x as u8);
vec_elem!(V_A3, [u8; 3], u16, 2, 3, 65535, |e| (e[0] as u32) | ((e[1] as u32) << 8) | ((e[2] as u32) << 16), |x| [x as u8, (x >> 8) as u8, (x >> 16) as u8]);
vec_elem!(V_P, le::U16, le::U16, 2, 2, 65535, |e| u16::from(*e) as u32, |x| le::U16::from(x as u16));

fn model_of<S: VecElem>(v: &FlatVec<S::E, S::L>) -> MV {
    let mut m = MV { len: v.len(), it: [0; 8] };
    let s = v.as_slice();
    let mut i = 0;
    while i < s.len() {
        if i < 8 {
            m.it[i] = S::to_u32(&s[i]);
        }
        i += 1;
    }
    m
}

pub fn vec_step<S: VecElem, const CAP: usize>()
where
    S: Shape<T = FlatVec<<S as VecElem>::E, <S as VecElem>::L>>,
    S::E: PartialEq,
{
    let mut a: A16<CAP> = A16(kani::any());
    let orig = a;
    let n: usize = kani::any();
    kani::assume(n <= CAP);
    let d0 = S::decode(&a.0[..n]);
    kani::assume(d0.ok());
    let op: u8 = kani::any();
    kani::assume(op <= 9);
    let x: u32 = kani::any();
    let y: u32 = kani::any();
    let z: u32 = kani::any();
    let k: usize = kani::any();
    kani::assume(k <= 3);
    let idx: usize = kani::any();
    let (xe, ye, ze) = (S::from_u32(x), S::from_u32(y), S::from_u32(z));
    let (x, y, z) = (S::to_u32(&xe), S::to_u32(&ye), S::to_u32(&ze));
    // reference capacity
    let room = fl(n - S::DO, S::A);
    let mut cap = 0usize;
    let mut r = room;
    while r >= S::ESZ {
        r -= S::ESZ;
        cap += 1;
    }
    if cap > S::LMAX {
        cap = S::LMAX;
    }
    let m0;
    let mut m1;
    let mut refused = false;
    {
        let v = match <S::T>::from_mut_bytes(&mut a.0[..n]) {
            Ok(v) => v,
            Err(_) => return,
        };
        m0 = model_of::<S>(v);
        m1 = m0;
        assert!(v.capacity() == cap, "capacity is what the slice length gives");
        match op {
            0 => {
                let r = v.push(xe);
                if m0.len < cap {
                    assert!(r.is_ok(), "push succeeds while there is room");
                    m1.it[m0.len] = x;
                    m1.len += 1;
                } else {
                    assert!(r.is_err(), "push is refused when full");
                    refused = true;
                }
            }
            1 => {
                let r = v.pop();
                if m0.len > 0 {
                    assert!(r.map(|e| S::to_u32(&e)) == Some(m0.it[m0.len - 1]), "pop returns the last element");
                    m1.len -= 1;
                } else {
                    assert!(r.is_none(), "pop on empty returns None");
                }
            }
            2 => {
                let src = [xe, ye, ze];
                let r = v.push_slice(&src[..k]);
                if k <= cap - m0.len {
                    assert!(r.is_ok(), "push_slice succeeds when the slice fits");
                    let xs = [x, y, z];
                    let mut i = 0;
                    while i < k {
                        m1.it[m0.len + i] = xs[i];
                        i += 1;
                    }
                    m1.len += k;
                } else {
                    assert!(r.is_err(), "push_slice is refused when the slice does not fit");
                    refused = true;
                }
            }
            3 => {
                v.truncate(idx);
                if idx < m0.len {
                    m1.len = idx;
                }
            }
            4 => {
                v.clear();
                m1.len = 0;
            }
            5 => {
                kani::assume(idx < m0.len);
                let r = v.remove(idx);
                assert!(S::to_u32(&r) == m0.it[idx], "remove returns the element");
                let mut i = 0;
                while i < 7 {
                    if i >= idx && i + 1 < m0.len {
                        m1.it[i] = m0.it[i + 1];
                    }
                    i += 1;
                }
                m1.len -= 1;
            }
            6 => {
                kani::assume(idx < m0.len);
                let r = v.swap_remove(idx);
                assert!(S::to_u32(&r) == m0.it[idx], "swap_remove returns the element");
                m1.it[idx] = m0.it[m0.len - 1];
                m1.len -= 1;
            }
            7 => {
                kani::assume(idx <= cap);
                v.resize(idx, xe);
                let mut i = 0;
                while i < 8 {
                    if i >= m0.len && i < idx {
                        m1.it[i] = x;
                    }
                    i += 1;
                }
                m1.len = idx;
            }
            8 => {
                kani::assume(idx < m0.len);
                v[idx] = xe;
                m1.it[idx] = x;
            }
            _ => {
                let src = [xe, ye, ze];
                v.extend_until_full(src.into_iter().take(k));
                let xs = [x, y, z];
                let mut i = 0;
                while i < 3 {
                    if i < k && m0.len + i < cap {
                        m1.it[m0.len + i] = xs[i];
                        m1.len = m0.len + i + 1;
                    }
                    i += 1;
                }
            }
        }
        // observable state equals the model
        let m = model_of::<S>(v);
        assert!(m.eq(&m1), "len and contents equal the Vec model after the operation");
        assert!(v.capacity() == cap, "the capacity never changes");
        assert!(v.remaining() == cap - m1.len, "remaining == capacity - len");
        assert!(v.is_empty() == (m1.len == 0) && v.is_full() == (m1.len == cap), "is_empty / is_full");
        assert!(v.size() == ce(S::DO + S::ESZ * m1.len, S::A), "size() is the extent of the content");
        if refused {
            assert!(m.eq(&m0), "a refused operation leaves the vector as it was");
        }
    }
    // bytes validate and re-map to the same state
    let d1 = S::decode(&a.0[..n]);
    assert!(d1.ok(), "the bytes validate after the operation");
    assert!(<S::T>::validate(&a.0[..n]).is_ok(), "the bytes validate after the operation (library)");
    let mut a2 = a;
    if let Ok(v2) = <S::T>::from_mut_bytes(&mut a2.0[..n]) {
        let m = model_of::<S>(v2);
        assert!(m.eq(&m1), "the bytes re-map to the same state");
        // equality against the pre-state
        let mut a0 = orig;
        if let Ok(v0) = <S::T>::from_mut_bytes(&mut a0.0[..n]) {
            assert!((*v0 == *v2) == m0.eq(&m1), "PartialEq agrees with the model");
        }
    } else {
        assert!(false, "the bytes re-map after the operation");
    }
    assert!(tail_unchanged(&a, &orig, n), "no byte after the vector's slice was written");
    kani::cover!(refused, "w:refused");
    kani::cover!(op == 0 && !refused && m0.len > 0, "w:push-nonempty");
    kani::cover!(op == 5 && m0.len >= 2, "w:remove-shifts");
    kani::cover!(op == 9 && m1.len == cap && k > 0, "w:extend-fills");
}

/// capacity above the length type's maximum: 300-byte buffer, L = u8
pub fn vec_lmax() {
    let mut a: A16<300> = A16([7u8; 300]);
    let len: u8 = kani::any();
    a.0[0] = len;
    let x: u8 = kani::any();
    let v = match FlatVec::<u8, u8>::from_mut_bytes(&mut a.0[..]) {
        Ok(v) => v,
        Err(_) => {
            assert!(false, "every length byte is valid when the capacity is 255");
            return;
        }
    };
    assert!(v.capacity() == 255, "capacity is clamped to the length type's maximum");
    assert!(v.len() == len as usize && v.remaining() == 255 - len as usize, "len / remaining");
    let r = v.push(x);
    assert!(r.is_ok() == (len < 255), "push at the length type's maximum is refused");
    assert!(v.len() == if len < 255 { len as usize + 1 } else { 255 }, "len after push");
    assert!(v.size() == 1 + v.len(), "size()");
    kani::cover!(len == 255, "w:at-maximum");
}

// ----------------------------------- FlatString -----------------------------------

pub fn str_step<const CAP: usize>() {
    let mut a: A16<CAP> = A16(kani::any());
    let orig = a;
    let n: usize = kani::any();
    kani::assume(n <= CAP);
    let d0 = STR8::decode(&a.0[..n]);
    kani::assume(d0.ok());
    let op: u8 = kani::any();
    kani::assume(op <= 2);
    let cu: u32 = kani::any();
    let ch = match char::from_u32(cu) {
        Some(c) => c,
        None => {
            kani::assume(false);
            'a'
        }
    };
    let sb: [u8; 3] = kani::any();
    let sl: usize = kani::any();
    kani::assume(sl <= 3 && utf8_first_bad(&sb, 0, sl) == sl);
    let cap = if n - 1 > 255 { 255 } else { n - 1 };
    let len0 = a.0[0] as usize;
    let mut want = [0u8; 12];
    let mut wlen = len0;
    let mut i = 0;
    while i + 1 < CAP {
        if i < len0 {
            want[i] = a.0[1 + i];
        }
        i += 1;
    }
    let mut refused = false;
    {
        let s = match FlatString::<u8>::from_mut_bytes(&mut a.0[..n]) {
            Ok(s) => s,
            Err(_) => return,
        };
        assert!(s.capacity() == cap && s.len() == len0, "capacity / len of the mapped string");
        match op {
            0 => {
                let mut enc = [0u8; 4];
                let l = ch.encode_utf8(&mut enc).len();
                let r = s.push(ch);
                if l <= cap - len0 {
                    assert!(r.is_ok(), "push(char) succeeds when the encoding fits");
                    let mut i = 0;
                    while i < 4 {
                        if i < l {
                            want[len0 + i] = enc[i];
                        }
                        i += 1;
                    }
                    wlen += l;
                } else {
                    assert!(r.is_err(), "push(char) is refused when the encoding does not fit");
                    refused = true;
                }
            }
            1 => {
                let st = unsafe { core::str::from_utf8_unchecked(&sb[..sl]) };
                let r = s.push_str(st);
                if sl <= cap - len0 {
                    assert!(r.is_ok(), "push_str succeeds when the string fits");
                    let mut i = 0;
                    while i < 3 {
                        if i < sl {
                            want[len0 + i] = sb[i];
                        }
                        i += 1;
                    }
                    wlen += sl;
                } else {
                    assert!(r.is_err(), "push_str is refused when the string does not fit");
                    refused = true;
                }
            }
            _ => {
                s.clear();
                wlen = 0;
            }
        }
        assert!(s.len() == wlen && s.capacity() == cap && s.remaining() == cap - wlen, "len / capacity / remaining equal the String model");
        let b = s.as_str().as_bytes();
        let mut same = b.len() == wlen;
        let mut i = 0;
        while i < CAP {
            if i < wlen && i < b.len() && b[i] != want[i] {
                same = false;
            }
            i += 1;
        }
        assert!(same, "as_str equals the String model");
        assert!(s.size() == 1 + wlen, "size() is the extent of the content");
        if refused {
            assert!(wlen == len0, "a refused operation leaves the string as it was");
        }
    }
    let d1 = STR8::decode(&a.0[..n]);
    assert!(d1.ok() && d1.ext == 1 + wlen, "the bytes validate (UTF-8 included) and re-map to the same state");
    assert!(tail_unchanged(&a, &orig, n), "no byte after the string's slice was written");
    kani::cover!(refused, "w:refused");
    kani::cover!(op == 0 && !refused && cu > 0x7ff, "w:pushed-3-or-4-byte-char");
}

// ------------------------------------- FlexVec -------------------------------------

/// model of a FlexVec of sized items: the item values in order
#[derive(Clone, Copy)]
struct MS {
    len: usize,
    it: [u32; 8],
}

/// An item emplacer that always fails after the slot and the minimum size were checked
/// ("nested emplacer error").
pub struct Failing;
macro_rules! failing_for {
    ($($t:ty),*) => {$(
        unsafe impl flatty::Emplacer<$t> for Failing {
            unsafe fn emplace_unchecked(self, _: &mut [u8]) -> Result<&mut $t, flatty::Error> {
                Err(flatty::Error { kind: flatty::error::ErrorKind::Other, pos: 0 })
            }
        }
    )*};
}
failing_for!(u8, u16, le::U16);

pub trait FlexElem: Shape {
    type E: Flat + Sized + Copy + flatty::FlatDefault + flatty::Emplacer<Self::E>;
    fn push_failing(v: &mut FlexVec<Self::E, Self::L>) -> bool;
    type L: Flat + flatty::vec::Length;
    const OS: usize;
    const ESZ: usize;
    const LMAXV: usize;
    fn to_u32(e: &Self::E) -> u32;
    fn from_u32(x: u32) -> Self::E;
}
macro_rules! flex_elem {
    ($S:ident, $E:ty, $L:ty, $os:expr, $esz:expr, $lmax:expr, |$e:ident| $to:expr, |$x:ident| $from:expr) => {
        impl FlexElem for $S {
            type E = $E;
            type L = $L;
            const OS: usize = $os;
            const ESZ: usize = $esz;
            const LMAXV: usize = $lmax;
            fn to_u32($e: &$E) -> u32 {
                $to
            }
            fn from_u32($x: u32) -> $E {
                $from
            }
            fn push_failing(v: &mut FlexVec<$E, $L>) -> bool {
                v.push(Failing).is_ok()
            }
        }
    };
}
flex_elem!(X_U8, u8, u8, 1, 1, 255, |e| *e as u32, |x| x as u8);
flex_elem!(X_U16, u16, u16, 2, 2, 65535, |e| *e as u32, |x| x as u16);
flex_elem!(X_P, le::U16, le::U16, 2, 2, 65535, |e| u16::from(*e) as u32, |x| le::U16::from(x as u16));

fn seq_of<S: FlexElem>(v: &FlexVec<S::E, S::L>) -> MS {
    let mut m = MS { len: 0, it: [0; 8] };
    for x in v.iter() {
        if m.len < 8 {
            m.it[m.len] = S::to_u32(x);
        }
        m.len += 1;
    }
    m
}
fn seq_eq(a: &MS, b: &MS) -> bool {
    if a.len != b.len {
        return false;
    }
    let n = a.len;
    macro_rules! cmp {
        ($($i:literal)*) => { true $(&& ($i >= n || a.it[$i] == b.it[$i]))* };
    }
    cmp!(0 1 2 3 4 5 6 7)
}

/// `LEAN`: the pre-state is mapped with `from_mut_bytes_unchecked` (its validity is the assumed
/// reference well-formedness) and the post-state is judged by the reference decoder only; the
/// library's own validate on both states is then C02's obligation for the same shape (accept
/// harness). Saves two of the six chain walks, which dominate solver time.
pub fn flex_step<S: FlexElem, const CAP: usize, const OP: u8, const LEAN: bool>()
where
    S: Shape<T = FlexVec<<S as FlexElem>::E, <S as FlexElem>::L>>,
{
    let mut a: A16<CAP> = A16(kani::any());
    let orig = a;
    let n: usize = kani::any();
    kani::assume(n <= CAP);
    let d0 = S::decode(&a.0[..n]);
    kani::assume(d0.ok());
    // one harness per operation (a single harness over all six exhausts 12 GB at 6 bytes)
    let op: u8 = OP;
    let x: u32 = kani::any();
    let xe = S::from_u32(x);
    let x = S::to_u32(&xe);
    let idx: usize = kani::any();
    let view = fl(n, S::A);
    // room for one more item: its slot starts at d0.aux
    let fits = view >= d0.aux && view - d0.aux >= S::OS + S::ESZ;
    // the pre-state as a sequence, read off the reference decoding (canonical content =
    // items in order, then the count); C02's accept harness ties it to the library's view
    let mut m0 = MS { len: d0.c.d[d0.c.n - 1] as usize, it: [0; 8] };
    {
        let mut i = 0;
        while i < m0.len {
            let mut v = 0u32;
            let mut j = 0;
            while j < S::ESZ {
                v |= (d0.c.d[i * S::ESZ + j] as u32) << (8 * j);
                j += 1;
            }
            if i < 8 {
                m0.it[i] = v;
            }
            i += 1;
        }
    }
    let mut m1 = m0;
    let mut refused = false;
    {
        let v = if LEAN {
            unsafe { <S::T>::from_mut_bytes_unchecked(&mut a.0[..n]) }
        } else {
            match <S::T>::from_mut_bytes(&mut a.0[..n]) {
                Ok(v) => v,
                Err(_) => return,
            }
        };
        match op {
            0 | 1 => {
                let r = if op == 0 { v.push(xe).map(|_| ()) } else { v.push_default().map(|_| ()) };
                let val = if op == 0 { x } else { 0 };
                if fits {
                    assert!(r.is_ok(), "push succeeds while there is room for the slot and the item");
                    m1.it[m0.len] = val;
                    m1.len += 1;
                } else {
                    assert!(r.is_err(), "push is refused when the slot or the item does not fit");
                    refused = true;
                }
            }
            2 => {
                let r = v.pop();
                if m0.len > 0 {
                    assert!(r.is_ok(), "pop succeeds on a non-empty vector");
                    m1.len -= 1;
                } else {
                    assert!(r.is_err(), "pop on empty is an error");
                }
            }
            3 => {
                v.truncate(idx);
                if idx < m0.len {
                    m1.len = idx;
                }
            }
            4 => {
                v.clear();
                m1.len = 0;
            }
            6 => {
                let ok = S::push_failing(v);
                assert!(!ok, "a push whose item emplacer fails is refused");
                refused = true;
            }
            _ => {
                kani::assume(idx < m0.len);
                let mut i = 0;
                for it in v.iter_mut() {
                    if i == idx {
                        *it = xe;
                    }
                    i += 1;
                }
                m1.it[idx] = x;
            }
        }
        let m = seq_of::<S>(v);
        assert!(seq_eq(&m, &m1), "length and items (in order) equal the sequence model");
        if op != 2 && op != 3 {
            assert!(v.len() == m1.len && v.is_empty() == (m1.len == 0), "len / is_empty after the operation");
        }
        if refused {
            assert!(seq_eq(&m, &m0), "a refused push leaves the vector as it was");
        }
    }
    let d1 = S::decode(&a.0[..n]);
    assert!(d1.ok(), "the bytes are a well-formed encoding after the operation");
    assert!(d1.c.d[d1.c.n - 1] as usize == m1.len, "the bytes re-map to a sequence of the same length");
    if !LEAN {
        assert!(<S::T>::validate(&a.0[..n]).is_ok(), "the bytes validate after the operation (library)");
    }
    if !LEAN && (op == 0 || op == 4) {
        if let Ok(v2) = <S::T>::from_bytes(&a.0[..n]) {
            assert!(v2.size() == d1.ext && d1.ext <= n, "size() is the reference extent of the new state");
        }
    }
    if refused {
        assert!(d1.c.eq(&d0.c) && d1.ext == d0.ext, "a refused push leaves content and size() unchanged");
    }
    assert!(tail_unchanged(&a, &orig, n), "no byte after the vector's slice was written");
    kani::cover!((refused && m0.len > 0) || (op > 1 && op != 6), "w:refused-nonempty");
    kani::cover!((refused && fits) || op != 6, "w:emplacer-failed-although-it-fits");
    kani::cover!((!refused && m0.len >= 1) || op > 1, "w:push-seals-previous");
    kani::cover!(m0.len >= 2 || op != 2, "w:pop-keeps-rest");
    kani::cover!((idx >= 1 && idx < m0.len) || op != 3, "w:truncate-middle");
    kani::cover!(m0.len >= 2 || op != 5, "w:edit-one-of-many");
}

/// FlexVec of unsized items: FlexVec<FlatVec<u8,u8>,u8>. The state is compared through the
/// reference decoding (canonical content = [len_0, items_0.., len_1, .., count]).
pub fn flexv_step<const CAP: usize, const OP: u8, const LEAN: bool>() {
    type S = X_V;
    let mut a: A16<CAP> = A16(kani::any());
    let orig = a;
    let n: usize = kani::any();
    kani::assume(n <= CAP);
    let d0 = S::decode(&a.0[..n]);
    kani::assume(d0.ok());
    let op: u8 = OP;
    let m: usize = kani::any();
    kani::assume(m <= 2);
    let it: [u8; 2] = kani::any();
    let idx: usize = kani::any();
    let x: u8 = kani::any();
    let count0 = d0.c.d[d0.c.n - 1] as usize;
    // start of the last item inside the canonical content, and of item `idx`
    let mut starts = [0usize; 8];
    let mut p = 0;
    let mut i = 0;
    while i < count0 {
        if i < 8 {
            starts[i] = p;
        }
        p += 1 + d0.c.d[p] as usize;
        i += 1;
    }
    let body0 = p; // canonical bytes before the trailing count
    // expected canonical content after the operation
    let mut want = Canon::new();
    let mut refused = false;
    let fits = n >= d0.aux && n - d0.aux >= 1 + 1 + m;
    let mut edit_fits = false;
    {
        let v = if LEAN {
            unsafe { <<S as Shape>::T>::from_mut_bytes_unchecked(&mut a.0[..n]) }
        } else {
            match <<S as Shape>::T>::from_mut_bytes(&mut a.0[..n]) {
                Ok(v) => v,
                Err(_) => return,
            }
        };
        let keep;
        match op {
            0 => {
                let r = match m {
                    0 => v.push(flat_vec![]).map(|_| ()),
                    1 => v.push(flat_vec![it[0]]).map(|_| ()),
                    _ => v.push(flat_vec![it[0], it[1]]).map(|_| ()),
                };
                if fits {
                    assert!(r.is_ok(), "push succeeds when slot and item fit");
                    keep = count0 + 1;
                } else {
                    assert!(r.is_err(), "push is refused when the item does not fit");
                    refused = true;
                    keep = count0;
                }
            }
            1 => {
                let r = v.pop();
                assert!(r.is_ok() == (count0 > 0), "pop succeeds exactly on a non-empty vector");
                keep = if count0 > 0 { count0 - 1 } else { 0 };
            }
            2 => {
                v.truncate(idx);
                keep = if idx < count0 { idx } else { count0 };
            }
            3 => {
                v.clear();
                keep = 0;
            }
            _ => {
                // edit item idx in place: push one element into it
                kani::assume(idx < count0);
                let mut i = 0;
                for item in v.iter_mut() {
                    if i == idx {
                        edit_fits = item.push(x).is_ok();
                    }
                    i += 1;
                }
                keep = count0;
            }
        }
        // build the expected content
        let mut i = 0;
        let mut q = 0;
        while i < count0 {
            let l = d0.c.d[q] as usize;
            if i < keep {
                if op == 4 && i == idx && edit_fits {
                    want.put((l + 1) as u8);
                } else {
                    want.put(l as u8);
                }
                let mut j = 0;
                while j < l {
                    want.put(d0.c.d[q + 1 + j]);
                    j += 1;
                }
                if op == 4 && i == idx && edit_fits {
                    want.put(x);
                }
            }
            q += 1 + l;
            i += 1;
        }
        if op == 0 && !refused {
            want.put(m as u8);
            if m >= 1 {
                want.put(it[0]);
            }
            if m >= 2 {
                want.put(it[1]);
            }
        }
        want.put(keep as u8);
    }
    let d1 = S::decode(&a.0[..n]);
    assert!(d1.ok(), "the bytes validate after the operation");
    if !LEAN {
        assert!(<<S as Shape>::T>::validate(&a.0[..n]).is_ok(), "the bytes validate after the operation (library)");
    }
    assert!(d1.c.eq(&want), "items (in order, with contents) equal the sequence model");
    if refused {
        assert!(d1.c.eq(&d0.c) && d1.ext == d0.ext, "a refused push leaves items and size() unchanged");
    }
    assert!(tail_unchanged(&a, &orig, n), "no byte after the vector's slice was written");
    kani::cover!((refused && count0 >= 1 && m >= 1) || op != 0, "w:refused-by-item-emplacer");
    kani::cover!((!refused && count0 >= 1) || op != 0, "w:push-seals-previous");
    kani::cover!(count0 >= 2 || op != 1, "w:pop-keeps-rest");
    kani::cover!((edit_fits && count0 >= 2) || op != 4, "w:edit-one-of-many");
}

macro_rules! vstep {
    ($shape:ident, $m:ident, $cap:literal, $unw:literal) => {
        #[allow(non_snake_case)]
        pub mod $m {
            #[kani::proof]
            #[kani::unwind($unw)]
            fn vec_step() {
                super::vec_step::<crate::shapes::$shape, $cap>()
            }
        }
    };
}
macro_rules! xstep {
    ($shape:ident, $m:ident, $cap:literal, $unw:literal, $lean:literal) => {
        #[allow(non_snake_case)]
        pub mod $m {
            #[kani::proof]
            #[kani::unwind($unw)]
            fn push() {
                super::flex_step::<crate::shapes::$shape, $cap, 0, $lean>()
            }
            #[kani::proof]
            #[kani::unwind($unw)]
            fn push_default() {
                super::flex_step::<crate::shapes::$shape, $cap, 1, $lean>()
            }
            #[kani::proof]
            #[kani::unwind($unw)]
            fn pop() {
                super::flex_step::<crate::shapes::$shape, $cap, 2, $lean>()
            }
            #[kani::proof]
            #[kani::unwind($unw)]
            fn truncate() {
                super::flex_step::<crate::shapes::$shape, $cap, 3, $lean>()
            }
            #[kani::proof]
            #[kani::unwind($unw)]
            fn clear() {
                super::flex_step::<crate::shapes::$shape, $cap, 4, $lean>()
            }
            #[kani::proof]
            #[kani::unwind($unw)]
            fn edit() {
                super::flex_step::<crate::shapes::$shape, $cap, 5, $lean>()
            }
            #[kani::proof]
            #[kani::unwind($unw)]
            fn push_failing() {
                super::flex_step::<crate::shapes::$shape, $cap, 6, $lean>()
            }
        }
    };
}

vstep!(V_U8, V_U8_st, 7, 10);
vstep!(V_U16, V_U16_st, 9, 12);
vstep!(V_U8L32, V_U8L32_st, 10, 13);
vstep!(V_A3, V_A3_st, 10, 13);
vstep!(V_P, V_P_st, 8, 11);
xstep!(X_U8, X_U8_st4, 4, 5, true);
xstep!(X_U8, X_U8_st, 5, 8, false);
xstep!(X_U8, X_U8_st6, 6, 9, false);
xstep!(X_U16, X_U16_st, 6, 9, false);
xstep!(X_P, X_P_st, 6, 9, false);

pub mod string {
    #[kani::proof]
    #[kani::unwind(10)]
    fn str_step() {
        super::str_step::<6>()
    }
}
pub mod lmax {
    #[kani::proof]
    #[kani::unwind(302)]
    fn vec_lmax() {
        super::vec_lmax()
    }
}

pub mod X_V_st4 {
    #[kani::proof]
    #[kani::unwind(6)]
    fn push() {
        super::flexv_step::<4, 0, true>()
    }
}
pub mod X_V_st {
    #[kani::proof]
    #[kani::unwind(9)]
    fn push() {
        super::flexv_step::<5, 0, false>()
    }
    #[kani::proof]
    #[kani::unwind(9)]
    fn pop() {
        super::flexv_step::<6, 1, false>()
    }
    #[kani::proof]
    #[kani::unwind(9)]
    fn truncate() {
        super::flexv_step::<6, 2, false>()
    }
    #[kani::proof]
    #[kani::unwind(9)]
    fn edit() {
        super::flexv_step::<6, 4, false>()
    }
}
