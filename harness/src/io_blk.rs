//! Blocking IO, one `recv` / `send` step from an arbitrary buffer state (DESIGN 5, C07/C09/C10).
//!
//! The pre-state of the receiver is an arbitrary `IoBuffer` (window, contents; built through
//! the `verif` hooks) in front of a source still holding up to R arbitrary bytes that it
//! delivers in arbitrary chunks, possibly failing. `stream = occupied ++ source bytes`.
//! One `recv()` (and the guard's drop) is compared with the reference decoder applied to
//! the stream. By induction over calls this covers every stream, chunking and fault script.
use crate::pipes::*;
use crate::refm::*;
use crate::shapes::*;
use flatty::prelude::*;
use flatty_io::{Receiver, RecvError, Sender};
use std::io::ErrorKind as IoKind;

/// Everything about one recv step. `FAULTS`: reads may fail. `HOSTILE`: no assumption that the
/// stream is well formed (C10); otherwise the stream starts with a valid message (C07).
pub fn recv_step<S: Shape, const CAP: usize, const R: usize, const T: usize, const FAULTS: bool, const HOSTILE: bool>() {
    assert!(T == CAP + R);
    let data0: [u8; CAP] = kani::any();
    let src: [u8; R] = kani::any();
    let src_len: usize = kani::any();
    kani::assume(src_len <= R);
    let start: usize = kani::any();
    let end: usize = kani::any();
    kani::assume(start <= end && end <= CAP && start % S::A == 0 && (start != end || start == 0));
    let occ = end - start;
    // the stream the receiver is looking at
    let mut stream = [0u8; T];
    let total = occ + src_len;
    let mut i = 0;
    while i < T {
        if i < occ {
            stream[i] = data0[start + i];
        } else if i < total {
            stream[i] = src[i - occ];
        }
        i += 1;
    }
    let whole = S::decode(&stream[..total]);
    if !HOSTILE {
        // a well-formed stream: a valid message (possibly followed by more), or the beginning of one
        kani::assume(whole.bad == 0);
    }

    let pipe = Source::<R> { data: src, len: src_len, pos: 0, calls: 0, faults: FAULTS, failed: false, last_after_fail: false };
    let mut rx = Receiver::<S::T, _>::new(flatty_io::IoBuffer::new(pipe, CAP, S::A));
    {
        let b = rx.verif_buffer_mut();
        let d = b.verif_data_mut();
        let mut i = 0;
        while i < CAP {
            d[i] = data0[i];
            i += 1;
        }
        b.verif_set_window(start, end);
    }

    // ---- the step ----
    let mut got = 0u8; // 1 message, 2 closed, 3 read error, 4 parse error, 5 message retained
    let mut msg = Canon::new();
    let mut msg_size = 0usize;
    let mut oom = false;
    let retain: bool = kani::any();
    match rx.recv() {
        Ok(guard) => {
            got = 1;
            let m: &S::T = &*guard;
            let mut o = Obs::new(0, usize::MAX);
            S::observe(m, &mut o);
            msg = o.c;
            msg_size = m.size();
            assert!(o.lencap, "delivered message: len <= capacity");
            if retain {
                // `retain` leaves the message in the receiver: nothing is consumed
                got = 5;
                guard.retain();
            }
            // otherwise the guard is dropped here: consumes size() bytes
        }
        Err(RecvError::Closed) => got = 2,
        Err(RecvError::Read(e)) => {
            got = 3;
            oom = e.kind() == IoKind::OutOfMemory;
            core::mem::forget(e);
        }
        Err(RecvError::Parse(e)) => {
            got = 4;
            core::mem::forget(e);
        }
    }

    kani::cover!(got == 5, "w:message-retained");
    // ---- post-state ----
    let b = rx.verif_buffer_mut();
    let win = b.verif_window();
    let poisoned = b.verif_poisoned();
    let stats = {
        let p = b.verif_pipe();
        (p.pos, p.calls, p.failed, p.last_after_fail)
    };
    let mut data1 = [0u8; CAP];
    {
        let d = b.verif_data_mut();
        let mut i = 0;
        while i < CAP {
            data1[i] = d[i];
            i += 1;
        }
    }
    post_recv::<S, CAP, R, T, FAULTS, HOSTILE>(&stream, occ, src_len, &whole, got, &msg, msg_size, oom, win, poisoned, stats, &data1);
}

/// Post-conditions of one recv step (shared by the blocking and the async harness).
#[allow(clippy::too_many_arguments)]
pub fn post_recv<S: Shape, const CAP: usize, const R: usize, const T: usize, const FAULTS: bool, const HOSTILE: bool>(
    stream: &[u8; T],
    occ: usize,
    src_len: usize,
    whole: &Dec,
    got: u8,
    msg: &Canon,
    msg_size: usize,
    oom: bool,
    win: (usize, usize, usize),
    poisoned: bool,
    stats: (usize, usize, bool, bool),
    data1: &[u8; CAP],
) {
    let (s1, e1, c1) = win;
    let (pos, calls, failed, after_fail) = stats;
    assert!(c1 == CAP && s1 <= e1 && e1 <= CAP, "window stays inside the buffer");
    assert!(s1 % S::A == 0 && (s1 != e1 || s1 == 0), "window invariant (aligned start, empty window reset)");
    assert!(!poisoned, "a receiver is never poisoned");
    assert!(!after_fail, "no read is issued after a failed read within one recv");
    assert!(calls <= R + 2, "bounded number of reads");
    let consumed = if got == 1 { msg_size } else { 0 };
    let got = if got == 5 { 1 } else { got }; // a retained message is judged like a delivered one, with nothing consumed
    // bytes buffered now ++ unread source bytes == stream minus the consumed message
    let occ1 = e1 - s1;
    assert!(occ1 + consumed == occ + pos, "nothing lost or duplicated: buffered + consumed == previously buffered + read");
    {
        let mut same = true;
        let mut i = 0;
        while i < CAP {
            if i < occ1 && data1[s1 + i] != stream[consumed + i] {
                same = false;
            }
            i += 1;
        }
        assert!(same, "buffered bytes are the stream in order (compaction preserves order)");
    }
    let seen = occ + pos; // prefix of the stream the receiver has looked at
    let pre = S::decode(&stream[..seen]);
    match got {
        1 => {
            assert!(pre.ok(), "a delivered message is a valid value of the bytes received so far");
            assert!(msg.eq(&pre.c) && msg_size == pre.ext, "delivered content and size are the reference decoding");
            assert!(msg_size <= seen, "dropping the guard consumes no more than has been received");
            assert!(consumed == msg_size || consumed == 0, "a message is consumed whole, or retained");
            if whole.ok() {
                assert!(msg.eq(&whole.c) && msg_size == whole.ext, "the delivered message is the first message of the stream");
            }
        }
        2 => {
            assert!(pos == src_len, "Closed only after the source reported end of stream");
            assert!(pre.short, "Closed only when the buffered bytes are an incomplete message");
            assert!(!failed || !FAULTS, "Closed is not reported for a failed read");
        }
        3 => {
            if oom {
                assert!(occ1 == CAP && s1 == 0, "OutOfMemory only when the buffer is full");
                assert!(pre.short, "OutOfMemory only while the message is incomplete");
            } else {
                assert!(FAULTS && failed, "a read error is reported only if a read failed");
            }
        }
        _ => {
            assert!(!pre.ok(), "a parse error is reported only for malformed input");
            assert!(pre.bad != 0, "a parse error is reported only for malformed content");
        }
    }
    if whole.ok() && whole.ext <= CAP && !failed {
        assert!(got == 1, "a complete valid message that fits the buffer is delivered");
    }
    if !pre.short && pre.bad != 0 && !failed {
        assert!(got == 4, "complete but malformed content is a parse error, not a request for more input");
    }
    kani::cover!(got == 1 && calls >= 2, "w:message-after-two-reads");
    kani::cover!(got == 1 && s1 > 0, "w:message-leaves-remainder");
    kani::cover!(got == 1 && consumed == 0 && msg_size > 0, "o:message-retained");
    kani::cover!(got == 2, "w:closed");
    kani::cover!(got == 3 && oom, "o:out-of-memory");
    kani::cover!(got == 3 && !oom || !FAULTS, "w:read-error-or-no-faults");
    kani::cover!(got == 4 || !HOSTILE || !S::CONSTRAINED, "w:parse-error-or-not-hostile");
}

/// One `alloc -> assume_init -> send` step: the sender's buffer holds an arbitrary valid image.
pub fn send_step<S: Shape, const CAP: usize, const FAULTS: bool>() {
    let data0: [u8; CAP] = kani::any();
    let img = S::decode(&data0);
    kani::assume(img.ok());
    let fresh: bool = kani::any(); // window 0..0 (never used / after a send) or 0..CAP (allocated)
    let pipe = Sink::<CAP> { data: [0; CAP], len: 0, calls: 0, faults: FAULTS, failed: false, last_after_fail: false, flushed: 0, flush_calls: 0 };
    let mut tx = Sender::<S::T, _>::new(flatty_io::IoBuffer::new(pipe, CAP, S::A));
    {
        let b = tx.verif_buffer_mut();
        let d = b.verif_data_mut();
        let mut i = 0;
        while i < CAP {
            d[i] = data0[i];
            i += 1;
        }
        b.verif_set_window(0, if fresh { 0 } else { CAP });
    }
    let ok;
    {
        let g = match tx.alloc() {
            Ok(g) => g,
            Err(e) => {
                core::mem::forget(e);
                assert!(false, "alloc of an in-memory buffer does not fail");
                return;
            }
        };
        assert!(g.as_bytes().len() == CAP, "alloc hands out the whole buffer");
        let g = unsafe { g.assume_init() };
        ok = match g.send() {
            Ok(()) => true,
            Err(e) => {
                core::mem::forget(e);
                false
            }
        };
    }
    let b = tx.verif_buffer_mut();
    let poisoned = b.verif_poisoned();
    let (s1, e1, _) = b.verif_window();
    let p = b.verif_pipe();
    let n = p.len;
    assert!(n <= img.ext, "never more than size() bytes reach the sink");
    let mut same = true;
    let mut i = 0;
    while i < CAP {
        if i < n && p.data[i] != data0[i] {
            same = false;
        }
        i += 1;
    }
    assert!(same, "the sink received a prefix of the message image, in order");
    assert!(!p.last_after_fail, "no write is issued after a failed write within one send");
    assert!(p.calls <= img.ext + 1, "bounded number of writes");
    if ok {
        assert!(n == img.ext, "a completed send handed over exactly size() bytes");
        assert!(!poisoned && s1 == 0 && e1 == 0, "after a completed send the buffer is released");
        assert!(!p.failed, "a send that met a failing write does not report success");
    } else {
        assert!(FAULTS && p.failed, "send fails only if the pipe failed");
        assert!(n < img.ext, "a failed send did not deliver the whole message");
        assert!(poisoned == (n != 0), "the sender is poisoned exactly when a partial message is in the stream");
    }
    kani::cover!(ok && p.calls >= 2, "w:sent-in-two-writes");
    kani::cover!(!ok && n > 0 || !FAULTS, "w:partial-then-failure-or-no-faults");
    kani::cover!(!ok && n == 0 || !FAULTS, "w:failure-at-start-or-no-faults");
}

/// `io(pipe, max_msg_len)` constructors: buffer capacity 2 * max(max_msg_len, MIN_SIZE), aligned
/// to the message type, empty window - for both ends, blocking and async.
pub fn ctor<S: Shape>() {
    let k: usize = kani::any();
    kani::assume(k <= 12);
    let want = 2 * if k > S::MIN { k } else { S::MIN };
    let src = Source::<1> { data: [0], len: 0, pos: 0, calls: 0, faults: false, failed: false, last_after_fail: false };
    let mut rx = Receiver::<S::T, _>::io(src, k);
    {
        let b = rx.verif_buffer_mut();
        assert!(b.verif_window() == (0, 0, want), "receiver buffer: empty window, capacity 2 * max(max_msg_len, MIN_SIZE)");
        assert!(b.verif_data_mut().as_ptr() as usize % S::A == 0, "receiver buffer is aligned to the message type");
        assert!(!b.verif_poisoned(), "fresh receiver is not poisoned");
    }
    let sink = Sink::<1> { data: [0], len: 0, calls: 0, faults: false, failed: false, last_after_fail: false, flushed: 0, flush_calls: 0 };
    let mut tx = Sender::<S::T, _>::io(sink, k);
    {
        let b = tx.verif_buffer_mut();
        assert!(b.verif_window() == (0, 0, want), "sender buffer: empty window, capacity 2 * max(max_msg_len, MIN_SIZE)");
        assert!(b.verif_data_mut().as_ptr() as usize % S::A == 0, "sender buffer is aligned to the message type");
    }
    let asrc = ASource::<1> { inner: Source { data: [0], len: 0, pos: 0, calls: 0, faults: false, failed: false, last_after_fail: false }, pending_budget: 0, pendings: 0, pending_this_poll: false };
    let mut arx = flatty_io::AsyncReceiver::<S::T, _>::io(asrc, k);
    {
        let b = arx.verif_buffer_mut();
        assert!(b.verif_window() == (0, 0, want), "async receiver buffer capacity");
        assert!(b.verif_data_mut().as_ptr() as usize % S::A == 0, "async receiver buffer alignment");
    }
    let asink = ASink::<1> { inner: Sink { data: [0], len: 0, calls: 0, faults: false, failed: false, last_after_fail: false, flushed: 0, flush_calls: 0 }, pending_budget: 0, pendings: 0, pending_this_poll: false, closed: false };
    let mut atx = flatty_io::AsyncSender::<S::T, _>::io(asink, k);
    {
        let b = atx.verif_buffer_mut();
        assert!(b.verif_window() == (0, 0, want), "async sender buffer capacity");
        assert!(b.verif_data_mut().as_ptr() as usize % S::A == 0, "async sender buffer alignment");
    }
    kani::cover!(k > S::MIN, "w:max-msg-len-decides");
    kani::cover!(k < S::MIN, "w:min-size-decides");
}

/// The whole sending path with a real emplacer: alloc -> new_in_place / default_in_place -> send.
pub fn send_emplaced<const CAP: usize>() {
    use flatty::{flat_vec, FlatVec};
    let data0: [u8; CAP] = kani::any();
    let pipe = Sink::<CAP> { data: [0; CAP], len: 0, calls: 0, faults: false, failed: false, last_after_fail: false, flushed: 0, flush_calls: 0 };
    let mut tx = Sender::<FlatVec<u8, u8>, _>::new(flatty_io::IoBuffer::new(pipe, CAP, 1));
    {
        let b = tx.verif_buffer_mut();
        let d = b.verif_data_mut();
        let mut i = 0;
        while i < CAP {
            d[i] = data0[i];
            i += 1;
        }
    }
    let m: usize = kani::any();
    kani::assume(m <= 2);
    let it: [u8; 2] = kani::any();
    let dflt: bool = kani::any();
    let g = match tx.alloc() {
        Ok(g) => g,
        Err(e) => {
            core::mem::forget(e);
            return;
        }
    };
    let g = if dflt {
        g.default_in_place()
    } else {
        match m {
            0 => g.new_in_place(flat_vec![]),
            1 => g.new_in_place(flat_vec![it[0]]),
            _ => g.new_in_place(flat_vec![it[0], it[1]]),
        }
    };
    let g = match g {
        Ok(g) => g,
        Err(_) => {
            assert!(false, "the message fits the buffer");
            return;
        }
    };
    let sent = match g.send() {
        Ok(()) => true,
        Err(e) => {
            core::mem::forget(e);
            false
        }
    };
    assert!(sent, "send over a healthy pipe succeeds");
    let p = tx.verif_buffer_mut().verif_pipe();
    let mm = if dflt { 0 } else { m };
    assert!(p.len == 1 + mm, "exactly the message's size() bytes were sent");
    assert!(p.data[0] == mm as u8, "length byte");
    assert!(mm < 1 || p.data[1] == it[0], "first item");
    assert!(mm < 2 || p.data[2] == it[1], "second item");
    kani::cover!(sent && mm == 2 && p.calls >= 2, "w:two-items-in-two-writes");
}

macro_rules! io {
    ($shape:ident, $m:ident, $cap:literal, $r:literal, $t:literal, $unw:literal) => {
        #[allow(non_snake_case)]
        pub mod $m {
            #[kani::proof]
            #[kani::unwind($unw)]
            fn recv() {
                super::recv_step::<crate::shapes::$shape, $cap, $r, $t, false, false>()
            }
            #[kani::proof]
            #[kani::unwind($unw)]
            fn recv_faults() {
                super::recv_step::<crate::shapes::$shape, $cap, $r, $t, true, false>()
            }
            #[kani::proof]
            #[kani::unwind($unw)]
            fn recv_hostile() {
                super::recv_step::<crate::shapes::$shape, $cap, $r, $t, false, true>()
            }
            #[kani::proof]
            #[kani::unwind($unw)]
            fn send() {
                super::send_step::<crate::shapes::$shape, $cap, false>()
            }
            #[kani::proof]
            #[kani::unwind($unw)]
            fn send_faults() {
                super::send_step::<crate::shapes::$shape, $cap, true>()
            }
        }
    };
}

pub mod ctors {
    #[kani::proof]
    #[kani::unwind(4)]
    fn U_S1() {
        super::ctor::<crate::shapes::U_S1>()
    }
    #[kani::proof]
    #[kani::unwind(4)]
    fn V_U8L32() {
        super::ctor::<crate::shapes::V_U8L32>()
    }
    #[kani::proof]
    #[kani::unwind(4)]
    fn V_U8() {
        super::ctor::<crate::shapes::V_U8>()
    }
}
pub mod emplaced {
    #[kani::proof]
    #[kani::unwind(8)]
    fn send_emplaced() {
        super::send_emplaced::<5>()
    }
}

// module, message shape, buffer capacity, further stream bytes, capacity + further, unwind
io!(V_U8, V_U8, 6, 3, 9, 11);
io!(U_E2, U_E2, 6, 3, 9, 11);
io!(U_S1, U_S1, 8, 4, 12, 14);
io!(X_U8, X_U8, 5, 2, 7, 9);
io!(V_U8L32, V_U8L32, 8, 4, 12, 14);
io!(S_SS2, SS2, 6, 2, 8, 10);
