//! Async IO, one `recv` / `send` step (C08, async halves of C09/C10). The real futures
//! (`async fn recv` state machine, `Read`, `WriteAll`) are polled by hand with a no-op waker;
//! every pipe call may answer `Pending` (bounded budget) or `Ready` with an arbitrary chunk.
//! Checking each side against all such scripts over-approximates every interleaving of a
//! sending and a receiving task over a bounded pipe of any capacity >= 1.
use crate::io_blk::post_recv;
use crate::pipes::*;
use crate::refm::*;
use crate::shapes::*;
use core::future::Future;
use core::pin::Pin;
use core::task::{Context, Poll};
use flatty::prelude::*;
use flatty_io::{AsyncReceiver, AsyncSender, RecvError};
use std::io::ErrorKind as IoKind;

pub fn recv_step<S: Shape, const CAP: usize, const R: usize, const T: usize, const PB: usize, const FAULTS: bool, const HOSTILE: bool>() {
    let data0: [u8; CAP] = kani::any();
    let src: [u8; R] = kani::any();
    let src_len: usize = kani::any();
    kani::assume(src_len <= R);
    let start: usize = kani::any();
    let end: usize = kani::any();
    kani::assume(start <= end && end <= CAP && start % S::A == 0 && (start != end || start == 0));
    let occ = end - start;
    let mut stream = [0u8; T];
    let total = occ + src_len;
    let mut i = 0;
    while i < T {
        if i < occ {
            stream[i] = data0[start + i];
        } else if i < total {
            stream[i] = src[i - occ];
        }
        i += 1;
    }
    let whole = S::decode(&stream[..total]);
    if !HOSTILE {
        kani::assume(whole.bad == 0);
    }
    let pipe = ASource::<R> {
        inner: Source { data: src, len: src_len, pos: 0, calls: 0, faults: FAULTS, failed: false, last_after_fail: false },
        pending_budget: PB,
        pendings: 0,
        pending_this_poll: false,
    };
    let mut rx = AsyncReceiver::<S::T, _>::new(flatty_io::IoBuffer::new(pipe, CAP, S::A));
    {
        let b = rx.verif_buffer_mut();
        let d = b.verif_data_mut();
        let mut i = 0;
        while i < CAP {
            d[i] = data0[i];
            i += 1;
        }
        b.verif_set_window(start, end);
    }
    let waker = futures::task::noop_waker();
    let mut cx = Context::from_waker(&waker);
    let mut got = 0u8;
    let mut msg = Canon::new();
    let mut msg_size = 0usize;
    let mut oom = false;
    let mut fut_pendings = 0usize;
    {
        let fut = rx.recv();
        let mut fut = core::pin::pin!(fut);
        let mut polls = 0;
        // at most PB Pending results can come from the pipe: the future must be done after PB + 1 polls
        while polls < PB + 1 && got == 0 {
            match fut.as_mut().poll(&mut cx) {
                Poll::Pending => fut_pendings += 1,
                Poll::Ready(Ok(guard)) => {
                    got = 1;
                    let m: &S::T = &*guard;
                    let mut o = Obs::new(0, usize::MAX);
                    S::observe(m, &mut o);
                    msg = o.c;
                    msg_size = m.size();
                    assert!(o.lencap, "delivered message: len <= capacity");
                }
                Poll::Ready(Err(RecvError::Closed)) => got = 2,
                Poll::Ready(Err(RecvError::Read(e))) => {
                    got = 3;
                    oom = e.kind() == IoKind::OutOfMemory;
                    core::mem::forget(e);
                }
                Poll::Ready(Err(RecvError::Parse(e))) => {
                    got = 4;
                    core::mem::forget(e);
                }
            }
            polls += 1;
        }
    }
    assert!(got != 0, "the recv future completes once the pipe has stopped answering Pending");
    let b = rx.verif_buffer_mut();
    let win = b.verif_window();
    let poisoned = b.verif_poisoned();
    let (stats, pipe_pendings) = {
        let p = b.verif_pipe();
        ((p.inner.pos, p.inner.calls, p.inner.failed, p.inner.last_after_fail), p.pendings)
    };
    assert!(fut_pendings == pipe_pendings, "the future is Pending exactly when a pipe call made during that poll was Pending");
    let mut data1 = [0u8; CAP];
    {
        let d = b.verif_data_mut();
        let mut i = 0;
        while i < CAP {
            data1[i] = d[i];
            i += 1;
        }
    }
    post_recv::<S, CAP, R, T, FAULTS, HOSTILE>(&stream, occ, src_len, &whole, got, &msg, msg_size, oom, win, poisoned, stats, &data1);
    kani::cover!(got == 1 && fut_pendings >= (if PB >= 2 { 2 } else { PB }), "w:message-after-pendings");
}

pub fn send_step<S: Shape, const CAP: usize, const PB: usize, const FAULTS: bool>() {
    let data0: [u8; CAP] = kani::any();
    let img = S::decode(&data0);
    kani::assume(img.ok());
    let fresh: bool = kani::any();
    let pipe = ASink::<CAP> {
        inner: Sink { data: [0; CAP], len: 0, calls: 0, faults: FAULTS, failed: false, last_after_fail: false, flushed: 0, flush_calls: 0 },
        pending_budget: PB,
        pendings: 0,
        pending_this_poll: false,
        closed: false,
    };
    let mut tx = AsyncSender::<S::T, _>::new(flatty_io::IoBuffer::new(pipe, CAP, S::A));
    {
        let b = tx.verif_buffer_mut();
        let d = b.verif_data_mut();
        let mut i = 0;
        while i < CAP {
            d[i] = data0[i];
            i += 1;
        }
        b.verif_set_window(0, if fresh { 0 } else { CAP });
    }
    let waker = futures::task::noop_waker();
    let mut cx = Context::from_waker(&waker);
    let mut done = 0u8; // 1 ok, 2 err
    let mut fut_pendings = 0usize;
    {
        // alloc() is always Ready for an in-memory buffer
        let g = {
            let af = tx.alloc();
            let mut af = core::pin::pin!(af);
            match af.as_mut().poll(&mut cx) {
                Poll::Ready(Ok(g)) => g,
                Poll::Ready(Err(e)) => {
                    core::mem::forget(e);
                    assert!(false, "alloc of an in-memory buffer does not fail");
                    return;
                }
                Poll::Pending => {
                    assert!(false, "alloc of an in-memory buffer is ready at once");
                    return;
                }
            }
        };
        assert!(g.as_bytes().len() == CAP, "alloc hands out the whole buffer");
        let g = unsafe { g.assume_init() };
        let mut fut = g.send();
        let mut polls = 0;
        while polls < PB + 1 && done == 0 {
            match Pin::new(&mut fut).poll(&mut cx) {
                Poll::Pending => fut_pendings += 1,
                Poll::Ready(Ok(())) => done = 1,
                Poll::Ready(Err(e)) => {
                    core::mem::forget(e);
                    done = 2;
                }
            }
            polls += 1;
        }
    }
    assert!(done != 0, "the send future completes once the pipe has stopped answering Pending");
    let b = tx.verif_buffer_mut();
    let poisoned = b.verif_poisoned();
    let (s1, e1, _) = b.verif_window();
    let p = b.verif_pipe();
    assert!(fut_pendings == p.pendings, "the future is Pending exactly when a pipe call made during that poll was Pending");
    let n = p.inner.len;
    assert!(n <= img.ext, "never more than size() bytes reach the sink");
    let mut same = true;
    let mut i = 0;
    while i < CAP {
        if i < n && p.inner.data[i] != data0[i] {
            same = false;
        }
        i += 1;
    }
    assert!(same, "the sink received a prefix of the message image, in order: no byte twice or skipped across Pending");
    assert!(!p.inner.last_after_fail, "no write is issued after a failed write within one send");
    assert!(p.inner.calls <= img.ext + 1, "bounded number of writes");
    if done == 1 {
        assert!(n == img.ext, "a completed send handed over exactly size() bytes");
        assert!(p.inner.flush_calls >= 1 && p.inner.flushed == img.ext, "a send completes only after the pipe was flushed with all bytes handed over");
        assert!(!poisoned && s1 == 0 && e1 == 0, "after a completed send the buffer is released");
        assert!(!p.inner.failed, "a send that met a failing write does not report success");
    } else {
        assert!(FAULTS && p.inner.failed, "send fails only if the pipe failed");
        assert!(n < img.ext, "a failed send did not deliver the whole message");
        assert!(poisoned == (n != 0), "the sender is poisoned exactly when a partial message is in the stream");
    }
    kani::cover!(done == 1 && fut_pendings >= (if PB >= 2 { 2 } else { PB }), "w:sent-after-pendings");
    kani::cover!(done == 1 && p.inner.calls >= 2, "w:sent-in-two-writes");
    kani::cover!(done == 2 && n > 0 || !FAULTS, "w:partial-then-failure-or-no-faults");
}

macro_rules! aio {
    ($shape:ident, $m:ident, $cap:literal, $r:literal, $t:literal, $pb:literal, $unw:literal) => {
        #[allow(non_snake_case)]
        pub mod $m {
            #[kani::proof]
            #[kani::unwind($unw)]
            fn recv() {
                super::recv_step::<crate::shapes::$shape, $cap, $r, $t, $pb, false, false>()
            }
            #[kani::proof]
            #[kani::unwind($unw)]
            fn recv_faults() {
                super::recv_step::<crate::shapes::$shape, $cap, $r, $t, $pb, true, false>()
            }
            #[kani::proof]
            #[kani::unwind($unw)]
            fn recv_hostile() {
                super::recv_step::<crate::shapes::$shape, $cap, $r, $t, $pb, false, true>()
            }
            #[kani::proof]
            #[kani::unwind($unw)]
            fn send() {
                super::send_step::<crate::shapes::$shape, $cap, $pb, false>()
            }
            #[kani::proof]
            #[kani::unwind($unw)]
            fn send_faults() {
                super::send_step::<crate::shapes::$shape, $cap, $pb, true>()
            }
        }
    };
}

// shape, module, capacity, further bytes, capacity + further, Pending budget, unwind
aio!(V_U8, V_U8, 5, 2, 7, 3, 9);
aio!(U_E2, U_E2, 5, 2, 7, 3, 9);
aio!(S_SS2, SS2, 6, 2, 8, 3, 10);
aio!(U_S1, U_S1, 8, 2, 10, 2, 12);
// quick tier: smaller buffer, one Pending result anywhere (measured: 2 Pending at capacity 5 take
// ~1000 s per recv harness)
aio!(V_U8, V_U8_q, 4, 2, 6, 1, 8);
aio!(S_SS2, SS2_q, 6, 2, 8, 1, 10);
aio!(U_E2, U_E2_q, 4, 2, 6, 1, 8);
// middle: two Pending results (thorough tier)
aio!(V_U8, V_U8_m, 5, 2, 7, 2, 9);
aio!(U_E2, U_E2_m, 5, 2, 7, 2, 9);
