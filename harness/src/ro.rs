//! Read-only harness families over arbitrary byte slices:
//!   total  (C01)  validate / from_bytes / from_mut_bytes terminate with Ok or Err, no panic,
//!                 no access outside the slice (exact-size heap object), every residue k
//!   accept (C02)  from_bytes is Ok  <=>  reference decoder accepts; view consistent
//!   size   (C05)  size() == reference extent <= n; re-mapping [..size()] loses nothing
//!   frame  (C06)  prefixes of a tight valid message: InsufficientSize, or same content when only
//!                 padding is missing; message + arbitrary suffix: same content, same size()
//!   errpos (C19)  content errors name an offending byte; complete-but-malformed => content error
use crate::buf::{Exact, A16};
use crate::refm::*;
use crate::shapes::*;
use core::mem::size_of_val;
use flatty::{error::ErrorKind, prelude::*, FlatWrap};

fn pick_kn<S: Shape, const CAP: usize>() -> (usize, usize) {
    let k: usize = kani::any();
    kani::assume(k < S::A);
    let n: usize = kani::any();
    kani::assume(n <= CAP && k + n <= CAP);
    (k, n)
}

pub fn total<S: Shape, const CAP: usize>() {
    let src: [u8; CAP] = kani::any();
    let (k, n) = pick_kn::<S, CAP>();
    let mut e = Exact::new::<CAP>(k, n, &src);
    let r1 = <S::T>::validate(e.slice());
    let ok1 = r1.is_ok();
    let ok2 = <S::T>::from_bytes(e.slice()).is_ok();
    let ok3 = <S::T>::from_mut_bytes(e.slice_mut()).is_ok();
    assert!(ok1 == ok2, "validate and from_bytes agree");
    assert!(ok2 == ok3, "from_bytes and from_mut_bytes agree");
    if k != 0 {
        assert!(!ok1, "misaligned slice is refused");
    }
    if n < S::MIN {
        assert!(!ok1, "slice shorter than the minimum size is refused");
    }
    kani::cover!(ok1, "w:accepted");
    kani::cover!(!ok1 && k == 0 && n >= S::MIN, "o:rejected-for-content");
    kani::cover!(k != 0 || S::A == 1, "w:misaligned-or-align1");
    kani::cover!(n == CAP, "w:max-length");
}

pub fn accept<S: Shape, const CAP: usize>() {
    let a: A16<CAP> = A16(kani::any());
    let (k, n) = pick_kn::<S, CAP>();
    let s = &a.0[k..k + n];
    let r = <S::T>::from_bytes(s);
    if k != 0 {
        assert!(r.is_err(), "misaligned slice is refused");
        return;
    }
    let d = S::decode(s);
    assert!(r.is_ok() == d.ok(), "from_bytes accepts exactly the well-formed encodings");
    if let Ok(v) = r {
        let lo = s.as_ptr() as usize;
        let hi = lo + n;
        assert!(size_of_val(v) <= n, "mapped value does not claim more bytes than the slice");
        let ab = v.as_bytes();
        assert!(ab.as_ptr() as usize == lo && ab.len() <= n, "as_bytes lies inside the slice");
        let mut o = Obs::new(lo, hi);
        S::observe(v, &mut o);
        assert!(o.inside, "everything reachable through accessors lies inside the slice");
        assert!(o.lencap, "every container reports len <= capacity");
        assert!(o.c.eq(&d.c), "content equals the reference decoding");
        assert!(<S::T>::validate(ab).is_ok(), "the value's own bytes validate again");
        kani::cover!(d.c.n >= 1, "w:accepted-nontrivial");
    }
    kani::cover!(!d.ok() && !d.short, "o:rejected-bad-content");
    kani::cover!(d.short && n >= S::MIN, "o:rejected-structural");
}

pub fn size<S: Shape, const CAP: usize>() {
    let a: A16<CAP> = A16(kani::any());
    let n: usize = kani::any();
    kani::assume(n <= CAP);
    let s = &a.0[..n];
    let d = S::decode(s);
    kani::assume(d.ok());
    let v = match <S::T>::from_bytes(s) {
        Ok(v) => v,
        Err(_) => {
            // C02's obligation, not this harness's
            return;
        }
    };
    let sz = v.size();
    assert!(sz == d.ext, "size() equals the reference extent");
    assert!(sz <= n, "size() does not exceed the mapped bytes");
    let r2 = <S::T>::from_bytes(&s[..sz]);
    assert!(r2.is_ok(), "the first size() bytes map again");
    if let Ok(v2) = r2 {
        assert!(v2.size() == sz, "same size() after truncation to size()");
        let lo = s.as_ptr() as usize;
        let mut o1 = Obs::new(lo, lo + n);
        S::observe(v, &mut o1);
        let mut o2 = Obs::new(lo, lo + sz);
        S::observe(v2, &mut o2);
        assert!(o1.c.eq(&o2.c), "same content after truncation to size()");
        assert!(o2.inside, "truncated view stays inside its slice");
    }
    kani::cover!(sz < n, "w:spare-bytes");
    kani::cover!(d.c.n >= 1, "w:nontrivial");
}

pub fn frame<S: Shape, const CAP: usize>() {
    let a: A16<CAP> = A16(kani::any());
    // tight message of e bytes followed by an arbitrary suffix up to n
    let e: usize = kani::any();
    let n: usize = kani::any();
    kani::assume(e <= n && n <= CAP);
    let m = &a.0[..e];
    let d = S::decode(m);
    kani::assume(d.ok() && d.ext == e);
    // extension: same content, same size
    match <S::T>::from_bytes(&a.0[..n]) {
        Ok(v) => {
            assert!(v.size() == e, "message followed by further bytes has the same size()");
            let lo = a.0.as_ptr() as usize;
            let mut o = Obs::new(lo, lo + n);
            S::observe(v, &mut o);
            assert!(o.c.eq(&d.c), "message followed by further bytes has the same content");
        }
        Err(_) => assert!(false, "message followed by further bytes still validates"),
    }
    // proper prefix
    let c: usize = kani::any();
    kani::assume(c < e);
    match <S::T>::from_bytes(&a.0[..c]) {
        Ok(v) => {
            assert!(c >= d.used, "a prefix is accepted only when nothing but padding is missing");
            let lo = a.0.as_ptr() as usize;
            let mut o = Obs::new(lo, lo + c);
            S::observe(v, &mut o);
            assert!(o.c.eq(&d.c), "an accepted prefix has the same content");
        }
        Err(err) => assert!(err.kind == ErrorKind::InsufficientSize, "a prefix of a valid message is reported as InsufficientSize"),
    }
    kani::cover!(n > e, "w:extended");
    kani::cover!((c > 0 || e <= 1) && d.c.n >= 1, "w:nontrivial-cut");
}

pub fn errpos<S: Shape, const CAP: usize>() {
    let a: A16<CAP> = A16(kani::any());
    let n: usize = kani::any();
    kani::assume(n <= CAP);
    let s = &a.0[..n];
    let d = S::decode(s);
    let r = <S::T>::validate(s);
    if !d.short && d.bad != 0 {
        match &r {
            Ok(()) => assert!(false, "malformed content is rejected"),
            Err(e) => assert!(e.kind != ErrorKind::InsufficientSize, "complete but malformed content is a content error, not InsufficientSize"),
        }
    }
    if let Err(e) = &r {
        if e.kind == ErrorKind::InvalidData || e.kind == ErrorKind::InvalidEnumTag {
            assert!(d.is_bad_at(e.pos), "content error position names an offending byte");
        }
        if d.short && d.bad == 0 {
            assert!(e.kind == ErrorKind::InsufficientSize || e.kind == ErrorKind::BadAlign, "no content error is reported where the reference finds none");
        }
    }
    kani::cover!((d.bad != 0 && !d.short) || !S::CONSTRAINED, "w:bad-content");
    kani::cover!(d.bad != 0 && (d.bad & 1) == 0 && !d.short, "o:bad-content-not-at-0");
}

pub fn wrap<S: Shape, const CAP: usize>() {
    let a: A16<CAP> = A16(kani::any());
    let n: usize = kani::any();
    kani::assume(n <= CAP);
    let s = &a.0[..n];
    let r = <S::T>::from_bytes(s).is_ok();
    let w = FlatWrap::<S::T, &[u8]>::from_wrapped_bytes(s);
    assert!(w.is_ok() == r, "FlatWrap::from_wrapped_bytes agrees with from_bytes");
    if let Ok(w) = w {
        let d = S::decode(s);
        let lo = s.as_ptr() as usize;
        let mut o = Obs::new(lo, lo + n);
        S::observe(&*w, &mut o);
        assert!(o.inside && o.lencap && o.c.eq(&d.c), "wrapped value equals the reference decoding");
    }
    kani::cover!(r, "w:accepted");
}

macro_rules! ro {
    ($shape:ident, $cap:literal, $unw:literal) => {
        paste_ro!($shape, $cap, $unw);
    };
}

/// stamps the five families for one shape: names `<family>_<SHAPE>`
macro_rules! paste_ro {
    ($shape:ident, $cap:literal, $unw:literal) => {
        #[allow(non_snake_case)]
        pub mod $shape {
            use super::*;
            #[kani::proof]
            #[kani::unwind($unw)]
            fn total() {
                super::total::<crate::shapes::$shape, $cap>()
            }
            #[kani::proof]
            #[kani::unwind($unw)]
            fn accept() {
                super::accept::<crate::shapes::$shape, $cap>()
            }
            #[kani::proof]
            #[kani::unwind($unw)]
            fn size() {
                super::size::<crate::shapes::$shape, $cap>()
            }
            #[kani::proof]
            #[kani::unwind($unw)]
            fn frame() {
                super::frame::<crate::shapes::$shape, $cap>()
            }
            #[kani::proof]
            #[kani::unwind($unw)]
            fn errpos() {
                super::errpos::<crate::shapes::$shape, $cap>()
            }
            #[kani::proof]
            #[kani::unwind($unw)]
            fn wrap() {
                super::wrap::<crate::shapes::$shape, $cap>()
            }
        }
    };
}

/// `total` for shapes containing a FlatString, with `core::str::from_utf8` replaced by the
/// reference automaton (stubs.rs): core's validator reading an exact-size heap object exhausts
/// memory (12 GB) already at 5 bytes. Module name `<SHAPE>_s`.
macro_rules! ro_total_stub {
    ($shape:ident, $m:ident, $cap:literal, $unw:literal) => {
        #[allow(non_snake_case)]
        pub mod $m {
            #[kani::proof]
            #[kani::unwind($unw)]
            #[kani::stub(core::str::from_utf8, crate::stubs::from_utf8_stub)]
            fn total() {
                super::total::<crate::shapes::$shape, $cap>()
            }
        }
    };
}

// shape, max bytes, unwind bound (max bytes + 2: no loop in library or reference iterates more often than there are bytes)
ro!(S_U16, 4, 6);
ro!(S_BOOL, 3, 5);
ro!(S_BOOL3, 5, 7);
ro!(S_SB, 8, 10);
ro!(S_SB2, 14, 16);
ro!(S_SS1, 10, 12);
ro!(S_SE1, 10, 12);
ro!(S_CE, 3, 5);
ro!(S_SE16, 6, 8);
ro!(S_PS, 9, 11);
ro!(S_PE, 10, 12);
ro!(V_U8, 8, 10);
ro!(V_U8L32, 10, 12);
ro!(V_U16, 10, 12);
ro!(V_BOOL, 8, 10);
ro!(V_SB, 14, 16);
ro!(V_A3, 12, 14);

/// One-element form of `V_SB` (2 bytes of length + padding, one 6-byte element): cheap enough
/// for C19's quick tier; the only quick shape with padding between a FlatVec's length field and
/// its constrained elements (DATA_OFFSET > L::SIZE).
#[allow(non_snake_case)]
pub mod V_SB_q {
    #[kani::proof]
    #[kani::unwind(10)]
    fn errpos() {
        super::errpos::<crate::shapes::V_SB, 8>()
    }
}
ro!(V_P, 10, 12);
ro!(STR8, 5, 7);
ro!(STR16, 6, 8);
ro!(STRP, 6, 8);
ro!(X_U8, 6, 8);
ro!(X_B, 6, 8);
ro!(X_U16, 8, 10);
ro!(X_V, 6, 8);
ro!(X_V16, 8, 10);
ro!(X_V8L16, 8, 10);
ro!(X_U8L16, 8, 10);
ro!(X_U8P, 8, 10);
ro!(U_E5, 18, 20);
ro!(U_E6, 8, 10);
ro!(X_S, 5, 7);
ro!(X_P, 8, 10);
ro!(U_S1, 12, 14);
ro!(U_S2, 14, 16);
ro!(U_S3, 6, 8);
ro!(U_S4, 7, 9);
ro!(U_S5, 12, 14);
ro!(U_S6, 12, 14);
ro!(U_PS, 10, 12);
ro!(U_E1, 16, 18);
ro!(U_E2, 8, 10);
ro!(U_E3, 12, 14);
ro!(U_E4, 14, 16);
ro!(U_PE, 10, 12);

ro_total_stub!(STR8, STR8_s, 6, 8);
ro_total_stub!(STR16, STR16_s, 7, 9);
ro_total_stub!(STRP, STRP_s, 7, 9);
ro_total_stub!(U_S3, U_S3_s, 7, 9);
ro_total_stub!(X_S, X_S_s, 5, 7);

/// FlatVec of a zero-sized element type: mapping any slice must not divide by zero.
pub mod zst {
    use flatty::{prelude::*, FlatVec};
    #[kani::proof]
    #[kani::unwind(8)]
    fn total() {
        let a: [u8; 4] = kani::any();
        let n: usize = kani::any();
        kani::assume(n <= 4);
        // the validation loop visits every (zero-sized) item: keep the count within the unwind bound
        kani::assume(a[0] <= 5);
        let r = FlatVec::<(), u8>::from_bytes(&a[..n]);
        assert!(r.is_ok() == (n >= 1), "a FlatVec of unit values needs only its length field");
        if let Ok(v) = r {
            assert!(v.len() == a[0] as usize && v.len() <= v.capacity(), "length is the stored count");
            assert!(v.size() == 1, "unit items take no room");
            assert!(FlatVec::<(), u8>::validate(v.as_bytes()).is_ok(), "own bytes validate");
        }
        kani::cover!(r.is_ok(), "w:accepted");
    }
}
