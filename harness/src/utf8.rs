//! Ties the reference UTF-8 automaton (used as oracle and as the `from_utf8` stub) to core's
//! real validator: for every byte string of the bounded length both agree on validity and on
//! `valid_up_to`.
use crate::refm::utf8_first_bad;

fn ref_vs_core_n<const N: usize>() {
    let a: [u8; N] = kani::any();
    let len: usize = kani::any();
    kani::assume(len <= N);
    let fb = utf8_first_bad(&a, 0, len);
    match core::str::from_utf8(&a[..len]) {
        Ok(_) => assert!(fb == len, "reference accepts what core accepts"),
        Err(e) => assert!(fb == e.valid_up_to(), "reference reports core's valid_up_to"),
    }
    kani::cover!(fb < len && fb > 0, "w:bad-after-valid-prefix");
    kani::cover!(fb == len && len == N, "w:valid-max-length");
}

#[kani::proof]
#[kani::unwind(6)]
fn ref_vs_core_4() {
    ref_vs_core_n::<4>()
}

#[kani::proof]
#[kani::unwind(8)]
fn ref_vs_core_6() {
    ref_vs_core_n::<6>()
}

/// the stub itself returns what the real function returns (stub applied only in other harnesses)
#[kani::proof]
#[kani::unwind(6)]
fn stub_vs_core_4() {
    let a: [u8; 4] = kani::any();
    let len: usize = kani::any();
    kani::assume(len <= 4);
    let r = core::str::from_utf8(&a[..len]);
    let s = crate::stubs::from_utf8_stub(&a[..len]);
    match (r, s) {
        (Ok(x), Ok(y)) => assert!(x.len() == y.len()),
        (Err(e), Err(f)) => assert!(e.valid_up_to() == f.valid_up_to()),
        _ => assert!(false, "stub and core disagree"),
    }
}
