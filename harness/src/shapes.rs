//! Shape catalogue: real `#[flat]` definitions (expanded by the repository's proc macro on
//! every build) and, for each, the independent reference decoder plus an observer that
//! reads the mapped value through its safe accessors only.
#![allow(non_camel_case_types)]
use crate::refm::*;
use flatty::{
    flat,
    portable::{be, le, Bool},
    prelude::*,
    FlatString, FlatVec, FlexVec,
};

pub trait Shape {
    type T: Flat + ?Sized;
    /// reference alignment (by hand, C rule)
    const A: usize;
    /// reference minimum size
    const MIN: usize;
    /// the type has at least one byte whose value is constrained (Bool, tag, UTF-8)
    const CONSTRAINED: bool = true;
    /// Decode the slice `b` (assumed aligned to `A`) as documented.
    fn decode(b: &[u8]) -> Dec;
    /// Read everything reachable through safe accessors.
    fn observe(v: &Self::T, o: &mut Obs);
}

// =============================== sized definitions ===============================

/// x@0 (pad@1) y@2..4 z@4 (pad@5): size 6, align 2
#[flat]
#[derive(Clone, Copy, Debug, PartialEq, Eq, Default)]
pub struct SB {
    pub x: Bool,
    pub y: u16,
    pub z: Bool,
}

/// a@0 (pad@1) b@2..4 c@4..8: size 8, align 4
#[flat(default = true)]
#[derive(Clone, Copy, Debug, PartialEq, Eq)]
pub struct SS1 {
    pub a: u8,
    pub b: u16,
    pub c: u32,
}

/// a@0..2 b@2 (pad@3): size 4, align 2
#[flat(default = true)]
#[derive(Clone, Copy, Debug, PartialEq, Eq)]
pub struct SS2 {
    pub a: u16,
    pub b: u8,
}

/// repr(C, u8): tag@0 (pad 1..4) payload@4: B(u16@4, u8@6) C{a:Bool@4, b:u16@6} D(u32@4); size 8, align 4
#[flat(default = true)]
#[derive(Clone, Copy, Debug, PartialEq, Eq)]
pub enum SE1 {
    #[default]
    A,
    B(u16, u8),
    C { a: Bool, b: u16 },
    D(u32),
}

/// repr(u8), size 1
#[flat(default = true)]
#[derive(Clone, Copy, Debug, PartialEq, Eq)]
pub enum CE {
    #[default]
    A,
    B,
    C,
}

/// repr(C, u16): tag@0..2, B(Bool@2) (pad@3); size 4, align 2
#[flat(tag_type = "u16", default = true)]
#[derive(Clone, Copy, Debug, PartialEq, Eq)]
pub enum SE16 {
    #[default]
    A,
    B(Bool),
}

/// portable: a@0 b@1..3 c@3..7, size 7, align 1
#[flat(portable = true, default = true)]
#[derive(Clone, Copy, Debug, PartialEq, Eq)]
pub struct PS {
    pub a: u8,
    pub b: le::U16,
    pub c: be::U32,
}

/// portable sized enum: tag@0, B(le::U16@1, Bool@3), C(PS@1..8); size 8, align 1
#[flat(portable = true, default = true)]
#[derive(Clone, Copy, Debug, PartialEq, Eq)]
pub enum PE {
    #[default]
    A,
    B(le::U16, Bool),
    C(PS),
}

// ============================== unsized definitions ==============================

/// a@0 b@2..4 c@4 (len@4, data@5..); align 2, MIN 6
#[flat(sized = false, default = true)]
pub struct US1 {
    pub a: u8,
    pub b: u16,
    pub c: FlatVec<u8, u8>,
}

/// a@0..4 c@4 (len@4, data@5..); align 4, MIN 8
#[flat(sized = false, default = true)]
pub struct US2 {
    pub a: u32,
    pub c: FlatVec<u8, u8>,
}

/// a@0 s@1 (len@1, bytes@2..); align 1, MIN 2
#[flat(sized = false, default = true)]
pub struct US3 {
    pub a: Bool,
    pub s: FlatString<u8>,
}

/// a@0 f@1 (offset chain); align 1, MIN 2
#[flat(sized = false, default = true)]
pub struct US4 {
    pub a: u8,
    pub f: FlexVec<u8, u8>,
}

/// a@0..2 v@2 (len@2, data@4.. of u16); align 2, MIN 4
#[flat(sized = false, default = true)]
pub struct US5 {
    pub a: u16,
    pub v: FlatVec<u16, u8>,
}

/// a field whose size (2) exceeds its alignment (1) at an odd offset, followed by a more
/// strictly aligned one: a@0 b@1..3 (pad@3) c@4..6 d@6 (len@6, data@7..); align 2, MIN 8
#[flat(sized = false, default = true)]
pub struct US6 {
    pub a: u8,
    pub b: [u8; 2],
    pub c: u16,
    pub d: FlatVec<u8, u8>,
}

/// the test suite's UnsizedEnum. tag@0, DATA_OFFSET 4, align 4, MIN 4.
/// B(u8@4, u16@6) needs 4 data bytes; C{offset:u32@4, bytes:FlatVec<u8,u16>@8 (len@8..10, data@10..)} needs 6.
#[flat(sized = false, default = true)]
pub enum UE1 {
    #[default]
    A,
    B(u8, u16),
    C { offset: u32, bytes: FlatVec<u8, u16> },
}

/// tag@0, DATA_OFFSET 1, align 1, MIN 1. B(Bool@1), C(FlatVec<u8,u8>@1: len@1 data@2..)
#[flat(sized = false, default = true)]
pub enum UE2 {
    #[default]
    A,
    B(Bool),
    C(FlatVec<u8, u8>),
}

/// tag u16@0..2, DATA_OFFSET 2, align 2, MIN 2. B(Bool@2, u16@4) needs 4; C{x:u8@2, v:FlatVec<u8,u8>@3 (len@3, data@4..)} needs 2
#[flat(sized = false, tag_type = "u16", default = true)]
pub enum UE3 {
    #[default]
    A,
    B(Bool, u16),
    C { x: u8, v: FlatVec<u8, u8> },
}

/// nested: tag@0, DATA_OFFSET 2, align 2, MIN 2. S(US1@2: a@2 b@4..6 c@6 (len@6 data@7..)) needs 6
#[flat(sized = false, default = true)]
pub enum UE4 {
    #[default]
    A,
    S(US1),
}

/// a variant with three fields whose middle one is preceded by padding:
/// tag@0, DATA_OFFSET 4, align 4, MIN 4. B(u8@4, u32@8, u8@12) needs 9 data bytes
#[flat(sized = false, default = true)]
pub enum UE5 {
    #[default]
    A,
    B(u8, u32, u8),
}

/// an unsized enum inside an unsized enum: tag@0, DATA_OFFSET 1, align 1, MIN 1.
/// N(UE2@1): inner tag@1, inner B(Bool@2) / C(FlatVec<u8,u8>@2: len@2 data@3..); needs 1
#[flat(sized = false, default = true)]
pub enum UE6 {
    #[default]
    A,
    N(UE2),
}

/// portable unsized struct: a@0..2, b@2 (len le16@2..4, data@4.. of le::U16); align 1, MIN 4
#[flat(sized = false, portable = true, default = true)]
pub struct PUS {
    pub a: le::U16,
    pub b: FlatVec<le::U16, le::U16>,
}

/// portable unsized enum: tag@0, DATA_OFFSET 1, align 1, MIN 1. B(le::U16@1) needs 2; C(PUS@1: a@1..3 len@3..5 data@5..) needs 4
#[flat(sized = false, portable = true, default = true)]
pub enum PUE {
    #[default]
    A,
    B(le::U16),
    C(PUS),
}

// ================================ helpers for observers ================================

pub fn obs_vec_u8<L: Flat + flatty::vec::Length>(v: &FlatVec<u8, L>, o: &mut Obs) {
    o.lc(v.len(), v.capacity());
    let s = v.as_slice();
    o.slice(s);
    o.c.put(s.len() as u8);
    let mut i = 0;
    while i < s.len() {
        o.c.put(s[i]);
        i += 1;
    }
}
pub fn obs_str<L: Flat + flatty::vec::Length>(v: &FlatString<L>, o: &mut Obs) {
    o.lc(v.len(), v.capacity());
    let s = v.as_str().as_bytes();
    o.slice(s);
    o.c.put(s.len() as u8);
    let mut i = 0;
    while i < s.len() {
        o.c.put(s[i]);
        i += 1;
    }
}
pub fn obs_bool(b: &Bool, o: &mut Obs) {
    o.at(b);
    o.c.put(match *b {
        Bool::False => 0,
        Bool::True => 1,
    });
}
pub fn obs_sb(s: &SB, o: &mut Obs) {
    o.at(s);
    obs_bool(&s.x, o);
    o.c.put16(s.y);
    obs_bool(&s.z, o);
}
pub fn obs_ps(p: &PS, o: &mut Obs) {
    o.at(p);
    o.c.put(p.a);
    o.c.put16(u16::from(p.b));
    o.c.put32(u32::from(p.c));
}
pub fn dec_ps(b: &[u8], at: usize, d: &mut Dec) {
    d.c.put(b[at]);
    d.c.put16(rd16(b, at + 1));
    d.c.put32(rd32be(b, at + 3));
}

/// size of a sized shape's view / extent
fn sized(b: &[u8], size: usize, d: &mut Dec) -> bool {
    d.ext = size;
    d.used = size;
    if b.len() < size {
        d.short = true;
        return false;
    }
    true
}

// ================================== sized shapes ==================================

macro_rules! shape {
    ($name:ident, $t:ty, $a:expr, $min:expr, |$b:ident, $d:ident| $dec:block, |$v:ident, $o:ident| $obs:block) => {
        shape!($name, true, $t, $a, $min, |$b, $d| $dec, |$v, $o| $obs);
    };
    ($name:ident, $constrained:literal, $t:ty, $a:expr, $min:expr, |$b:ident, $d:ident| $dec:block, |$v:ident, $o:ident| $obs:block) => {
        pub struct $name;
        impl Shape for $name {
            type T = $t;
            const A: usize = $a;
            const MIN: usize = $min;
            const CONSTRAINED: bool = $constrained;
            fn decode($b: &[u8]) -> Dec {
                let mut dd = Dec::new();
                {
                    let $d = &mut dd;
                    $dec
                }
                dd
            }
            fn observe($v: &$t, $o: &mut Obs) $obs
        }
    };
}

shape!(S_U16, false, u16, 2, 2, |b, d| {
    if sized(b, 2, d) {
        d.c.put16(rd16(b, 0));
    }
}, |v, o| {
    o.at(v);
    o.c.put16(*v);
});

shape!(S_BOOL, Bool, 1, 1, |b, d| {
    if sized(b, 1, d) {
        dec_bool(b, 0, 0, d);
    }
}, |v, o| { obs_bool(v, o); });

shape!(S_BOOL3, [Bool; 3], 1, 3, |b, d| {
    if sized(b, 3, d) {
        dec_bool(b, 0, 0, d);
        dec_bool(b, 1, 0, d);
        dec_bool(b, 2, 0, d);
    }
}, |v, o| {
    o.at(v);
    obs_bool(&v[0], o);
    obs_bool(&v[1], o);
    obs_bool(&v[2], o);
});

shape!(S_SB, SB, 2, 6, |b, d| {
    if sized(b, 6, d) {
        dec_el(El::SB, b, 0, 0, d);
    }
}, |v, o| { obs_sb(v, o); });

shape!(S_SB2, [SB; 2], 2, 12, |b, d| {
    if sized(b, 12, d) {
        dec_el(El::SB, b, 0, 0, d);
        dec_el(El::SB, b, 6, 0, d);
    }
}, |v, o| {
    o.at(v);
    obs_sb(&v[0], o);
    obs_sb(&v[1], o);
});

shape!(S_SS1, false, SS1, 4, 8, |b, d| {
    if sized(b, 8, d) {
        d.c.put(b[0]);
        d.c.put16(rd16(b, 2));
        d.c.put32(rd32(b, 4));
    }
}, |v, o| {
    o.at(v);
    o.c.put(v.a);
    o.c.put16(v.b);
    o.c.put32(v.c);
});

shape!(S_SS2, false, SS2, 2, 4, |b, d| {
    if sized(b, 4, d) {
        d.c.put16(rd16(b, 0));
        d.c.put(b[2]);
    }
}, |v, o| {
    o.at(v);
    o.c.put16(v.a);
    o.c.put(v.b);
});

shape!(S_SE1, SE1, 4, 8, |b, d| {
    if sized(b, 8, d) {
        let t = b[0];
        if t > 3 {
            d.mark(0);
        } else {
            d.c.put(t);
            match t {
                0 => {}
                1 => {
                    d.c.put16(rd16(b, 4));
                    d.c.put(b[6]);
                }
                2 => {
                    dec_bool(b, 4, 0, d);
                    d.c.put16(rd16(b, 6));
                }
                _ => d.c.put32(rd32(b, 4)),
            }
        }
    }
}, |v, o| {
    o.at(v);
    match v {
        SE1::A => o.c.put(0),
        SE1::B(x, y) => {
            o.c.put(1);
            o.at(x);
            o.at(y);
            o.c.put16(*x);
            o.c.put(*y);
        }
        SE1::C { a, b } => {
            o.c.put(2);
            obs_bool(a, o);
            o.at(b);
            o.c.put16(*b);
        }
        SE1::D(x) => {
            o.c.put(3);
            o.at(x);
            o.c.put32(*x);
        }
    }
});

shape!(S_CE, CE, 1, 1, |b, d| {
    if sized(b, 1, d) {
        if b[0] > 2 {
            d.mark(0);
        } else {
            d.c.put(b[0]);
        }
    }
}, |v, o| {
    o.at(v);
    o.c.put(match v {
        CE::A => 0,
        CE::B => 1,
        CE::C => 2,
    });
});

shape!(S_SE16, SE16, 2, 4, |b, d| {
    if sized(b, 4, d) {
        let t = rd16(b, 0);
        if t > 1 {
            // either byte of the tag may be named
            d.mark(0);
            d.mark(1);
        } else {
            d.c.put(t as u8);
            if t == 1 {
                dec_bool(b, 2, 0, d);
            }
        }
    }
}, |v, o| {
    o.at(v);
    match v {
        SE16::A => o.c.put(0),
        SE16::B(x) => {
            o.c.put(1);
            obs_bool(x, o);
        }
    }
});

shape!(S_PS, false, PS, 1, 7, |b, d| {
    if sized(b, 7, d) {
        dec_ps(b, 0, d);
    }
}, |v, o| { obs_ps(v, o); });

shape!(S_PE, PE, 1, 8, |b, d| {
    if sized(b, 8, d) {
        let t = b[0];
        if t > 2 {
            d.mark(0);
        } else {
            d.c.put(t);
            match t {
                0 => {}
                1 => {
                    d.c.put16(rd16(b, 1));
                    dec_bool(b, 3, 0, d);
                }
                _ => dec_ps(b, 1, d),
            }
        }
    }
}, |v, o| {
    o.at(v);
    match v {
        PE::A => o.c.put(0),
        PE::B(x, y) => {
            o.c.put(1);
            o.at(x);
            o.c.put16(u16::from(*x));
            obs_bool(y, o);
        }
        PE::C(p) => {
            o.c.put(2);
            obs_ps(p, o);
        }
    }
});

// ================================== FlatVec / FlatString ==================================

/// generic top-level FlatVec decode: view = whole slice (the vector floors by itself)
fn top_vec(e: El, lsz: usize, lalign: usize, b: &[u8], d: &mut Dec) {
    let al = if lalign > e.align() { lalign } else { e.align() };
    match dec_vec(e, lsz, lalign, b, 0, d) {
        Some(u) => {
            d.used = u;
            d.ext = ce(u, al);
        }
        None => {}
    }
}

shape!(V_U8, false, FlatVec<u8, u8>, 1, 1, |b, d| { top_vec(El::U8, 1, 1, b, d); }, |v, o| { obs_vec_u8(v, o); });

shape!(V_U8L32, false, FlatVec<u8, u32>, 4, 4, |b, d| { top_vec(El::U8, 4, 4, b, d); }, |v, o| { obs_vec_u8(v, o); });

shape!(V_U16, false, FlatVec<u16, u8>, 2, 2, |b, d| { top_vec(El::U16, 1, 1, b, d); }, |v, o| {
    o.lc(v.len(), v.capacity());
    let s = v.as_slice();
    o.slice(s);
    o.c.put(s.len() as u8);
    let mut i = 0;
    while i < s.len() {
        o.c.put16(s[i]);
        i += 1;
    }
});

shape!(V_BOOL, FlatVec<Bool, u8>, 1, 1, |b, d| { top_vec(El::Bool, 1, 1, b, d); }, |v, o| {
    o.lc(v.len(), v.capacity());
    let s = v.as_slice();
    o.slice(s);
    o.c.put(s.len() as u8);
    let mut i = 0;
    while i < s.len() {
        obs_bool(&s[i], o);
        i += 1;
    }
});

shape!(V_SB, FlatVec<SB, u8>, 2, 2, |b, d| { top_vec(El::SB, 1, 1, b, d); }, |v, o| {
    o.lc(v.len(), v.capacity());
    let s = v.as_slice();
    o.slice(s);
    o.c.put(s.len() as u8);
    let mut i = 0;
    while i < s.len() {
        obs_sb(&s[i], o);
        i += 1;
    }
});

shape!(V_A3, false, FlatVec<[u8; 3], u16>, 2, 2, |b, d| { top_vec(El::A3, 2, 2, b, d); }, |v, o| {
    o.lc(v.len(), v.capacity());
    let s = v.as_slice();
    o.slice(s);
    o.c.put(s.len() as u8);
    let mut i = 0;
    while i < s.len() {
        o.c.put(s[i][0]);
        o.c.put(s[i][1]);
        o.c.put(s[i][2]);
        i += 1;
    }
});

shape!(V_P, false, FlatVec<le::U16, le::U16>, 1, 2, |b, d| { top_vec(El::LeU16, 2, 1, b, d); }, |v, o| {
    o.lc(v.len(), v.capacity());
    let s = v.as_slice();
    o.slice(s);
    o.c.put(s.len() as u8);
    let mut i = 0;
    while i < s.len() {
        o.c.put16(u16::from(s[i]));
        i += 1;
    }
});

fn top_str(lsz: usize, lalign: usize, b: &[u8], d: &mut Dec) {
    match dec_str(lsz, lalign, b, 0, d) {
        Some(u) => {
            d.used = u;
            d.ext = ce(u, lalign);
        }
        None => {}
    }
}

shape!(STR8, FlatString<u8>, 1, 1, |b, d| { top_str(1, 1, b, d); }, |v, o| { obs_str(v, o); });
shape!(STR16, FlatString<u16>, 2, 2, |b, d| { top_str(2, 2, b, d); }, |v, o| { obs_str(v, o); });
shape!(STRP, FlatString<le::U16>, 1, 2, |b, d| { top_str(2, 1, b, d); }, |v, o| { obs_str(v, o); });

// ===================================== FlexVec =====================================

#[derive(Clone, Copy)]
pub enum Item {
    El(El),
    /// FlatVec<u8, L> with native L of the given size
    VecU8(usize),
    /// FlatString<u8>
    Str8,
}
impl Item {
    const fn align(self) -> usize {
        match self {
            Item::El(e) => e.align(),
            Item::VecU8(l) => l,
            Item::Str8 => 1,
        }
    }
    const fn min(self) -> usize {
        match self {
            Item::El(e) => e.size(),
            Item::VecU8(l) => l,
            Item::Str8 => 1,
        }
    }
}

/// Decode one item whose bytes are `p` (offset `base` in the outer slice).
/// Returns (used, ext) or None when the item itself is short.
fn dec_item(it: Item, p: &[u8], base: usize, d: &mut Dec) -> Option<(usize, usize)> {
    match it {
        Item::El(e) => {
            if p.len() < e.size() {
                d.short = true;
                return None;
            }
            dec_el(e, p, 0, base, d);
            Some((e.size(), e.size()))
        }
        Item::VecU8(l) => dec_vec(El::U8, l, l, p, base, d).map(|u| (u, ce(u, l))),
        Item::Str8 => dec_str(1, 1, p, base, d).map(|u| (u, u)),
    }
}

/// FlexVec<T, L>: chain of `[next: L][payload]`; next = 0 terminates, next = L::MAX marks
/// a last item owning the rest. OFFSET_SIZE = max(L size, T align); align = max(L align, T align).
/// `b` = bytes available to the FlexVec (floored to its alignment here), `base` its offset.
pub fn dec_flex(it: Item, lsz: usize, lalign: usize, b: &[u8], base: usize, d: &mut Dec) -> Option<(usize, usize)> {
    let al = if lalign > it.align() { lalign } else { it.align() };
    let os = if lsz > it.align() { lsz } else { it.align() };
    let n = fl(b.len(), al);
    let mut pos = 0;
    let mut count: u8 = 0;
    // every link advances by >= os >= 1: at most n iterations
    loop {
        if n - pos < lsz {
            d.short = true;
            return None;
        }
        let off = rd(b, pos, lsz);
        if off == 0 {
            d.c.put(count);
            d.aux = pos;
            return Some((pos + lsz, pos + os));
        }
        if off == lmax(lsz) {
            if n - pos < os {
                d.short = true;
                return None;
            }
            let r = dec_item(it, &b[pos + os..n], base + pos + os, d);
            return match r {
                Some((u, e)) => {
                    d.c.put(count + 1);
                    d.aux = pos + os + ce(e, al);
                    Some((pos + os + u, pos + os + ce(e, al)))
                }
                None => None,
            };
        }
        let off = off as usize;
        if off < os || off > n - pos {
            d.short = true;
            return None;
        }
        if off & (al - 1) != 0 {
            // next slot / payload would be misaligned: rejected as BadAlign (a content-class error)
            let mut j = 0;
            while j < lsz {
                d.mark(base + pos + j);
                j += 1;
            }
            // the item in front of the misaligned slot may itself not fit (then the
            // library may equally well report InsufficientSize)
            let _ = dec_item(it, &b[pos + os..pos + off], base + pos + os, d);
            return None;
        }
        if dec_item(it, &b[pos + os..pos + off], base + pos + os, d).is_none() {
            // keep walking is pointless: the value is rejected; position of later errors unknown
            return None;
        }
        pos += off;
        count += 1;
    }
}

fn top_flex(it: Item, lsz: usize, lalign: usize, b: &[u8], d: &mut Dec) {
    if let Some((u, e)) = dec_flex(it, lsz, lalign, b, 0, d) {
        d.used = u;
        d.ext = e;
    }
}

shape!(X_U8, false, FlexVec<u8, u8>, 1, 1, |b, d| { top_flex(Item::El(El::U8), 1, 1, b, d); }, |v, o| {
    let mut n = 0u8;
    for x in v.iter() {
        o.at(x);
        o.c.put(*x);
        n += 1;
    }
    o.c.put(n);
});

shape!(X_B, FlexVec<Bool, u8>, 1, 1, |b, d| { top_flex(Item::El(El::Bool), 1, 1, b, d); }, |v, o| {
    let mut n = 0u8;
    for x in v.iter() {
        obs_bool(x, o);
        n += 1;
    }
    o.c.put(n);
});

shape!(X_U16, FlexVec<u16, u16>, 2, 2, |b, d| { top_flex(Item::El(El::U16), 2, 2, b, d); }, |v, o| {
    let mut n = 0u8;
    for x in v.iter() {
        o.at(x);
        o.c.put16(*x);
        n += 1;
    }
    o.c.put(n);
});

shape!(X_V, false, FlexVec<FlatVec<u8, u8>, u8>, 1, 1, |b, d| { top_flex(Item::VecU8(1), 1, 1, b, d); }, |v, o| {
    let mut n = 0u8;
    for x in v.iter() {
        obs_vec_u8(x, o);
        n += 1;
    }
    o.c.put(n);
});

shape!(X_V16, FlexVec<FlatVec<u8, u16>, u16>, 2, 2, |b, d| { top_flex(Item::VecU8(2), 2, 2, b, d); }, |v, o| {
    let mut n = 0u8;
    for x in v.iter() {
        obs_vec_u8(x, o);
        n += 1;
    }
    o.c.put(n);
});

// sized items less aligned than the offset type: OFFSET_SIZE 2, align 2, u8 items (each item
// is padded to 2 bytes)
shape!(X_U8L16, false, FlexVec<u8, u16>, 2, 2, |b, d| { top_flex(Item::El(El::U8), 2, 2, b, d); }, |v, o| {
    let mut n = 0u8;
    for x in v.iter() {
        o.at(x);
        o.c.put(*x);
        n += 1;
    }
    o.c.put(n);
});

// portable two-byte offset type with one-byte items: OFFSET_SIZE 2, align 1 (an item slot is 3 bytes)
shape!(X_U8P, false, FlexVec<u8, le::U16>, 1, 2, |b, d| { top_flex(Item::El(El::U8), 2, 1, b, d); }, |v, o| {
    let mut n = 0u8;
    for x in v.iter() {
        o.at(x);
        o.c.put(*x);
        n += 1;
    }
    o.c.put(n);
});

// offset type more strictly aligned than the items: OFFSET_SIZE 2, align 2, items of align 1
shape!(X_V8L16, false, FlexVec<FlatVec<u8, u8>, u16>, 2, 2, |b, d| { top_flex(Item::VecU8(1), 2, 2, b, d); }, |v, o| {
    let mut n = 0u8;
    for x in v.iter() {
        obs_vec_u8(x, o);
        n += 1;
    }
    o.c.put(n);
});

shape!(X_S, FlexVec<FlatString<u8>, u8>, 1, 1, |b, d| { top_flex(Item::Str8, 1, 1, b, d); }, |v, o| {
    let mut n = 0u8;
    for x in v.iter() {
        obs_str(x, o);
        n += 1;
    }
    o.c.put(n);
});

shape!(X_P, false, FlexVec<le::U16, le::U16>, 1, 2, |b, d| { top_flex(Item::El(El::LeU16), 2, 1, b, d); }, |v, o| {
    let mut n = 0u8;
    for x in v.iter() {
        o.at(x);
        o.c.put16(u16::from(*x));
        n += 1;
    }
    o.c.put(n);
});

// ================================== unsized structs ==================================

shape!(U_S1, false, US1, 2, 6, |b, d| {
    let n = fl(b.len(), 2);
    if n < 6 {
        d.short = true;
    } else {
        d.c.put(b[0]);
        d.c.put16(rd16(b, 2));
        if let Some(u) = dec_vec(El::U8, 1, 1, &b[4..n], 4, d) {
            d.used = 4 + u;
            d.ext = ce(4 + u, 2);
        }
    }
}, |v, o| {
    o.at(&v.a);
    o.at(&v.b);
    o.c.put(v.a);
    o.c.put16(v.b);
    obs_vec_u8(&v.c, o);
});

shape!(U_S2, false, US2, 4, 8, |b, d| {
    let n = fl(b.len(), 4);
    if n < 8 {
        d.short = true;
    } else {
        d.c.put32(rd32(b, 0));
        if let Some(u) = dec_vec(El::U8, 1, 1, &b[4..n], 4, d) {
            d.used = 4 + u;
            d.ext = ce(4 + u, 4);
        }
    }
}, |v, o| {
    o.at(&v.a);
    o.c.put32(v.a);
    obs_vec_u8(&v.c, o);
});

shape!(U_S3, US3, 1, 2, |b, d| {
    if b.len() < 2 {
        d.short = true;
    } else {
        dec_bool(b, 0, 0, d);
        if let Some(u) = dec_str(1, 1, &b[1..], 1, d) {
            d.used = 1 + u;
            d.ext = 1 + u;
        }
    }
}, |v, o| {
    obs_bool(&v.a, o);
    obs_str(&v.s, o);
});

shape!(U_S4, false, US4, 1, 2, |b, d| {
    if b.len() < 2 {
        d.short = true;
    } else {
        d.c.put(b[0]);
        if let Some((u, e)) = dec_flex(Item::El(El::U8), 1, 1, &b[1..], 1, d) {
            d.used = 1 + u;
            d.ext = 1 + e;
        }
    }
}, |v, o| {
    o.at(&v.a);
    o.c.put(v.a);
    let mut n = 0u8;
    for x in v.f.iter() {
        o.at(x);
        o.c.put(*x);
        n += 1;
    }
    o.c.put(n);
});

shape!(U_S6, false, US6, 2, 8, |b, d| {
    let n = fl(b.len(), 2);
    if n < 8 {
        d.short = true;
    } else {
        d.c.put(b[0]);
        d.c.put(b[1]);
        d.c.put(b[2]);
        d.c.put16(rd16(b, 4));
        if let Some(u) = dec_vec(El::U8, 1, 1, &b[6..n], 6, d) {
            d.used = 6 + u;
            d.ext = ce(6 + u, 2);
        }
    }
}, |v, o| {
    o.at(&v.a);
    o.at(&v.b);
    o.at(&v.c);
    o.c.put(v.a);
    o.c.put(v.b[0]);
    o.c.put(v.b[1]);
    o.c.put16(v.c);
    obs_vec_u8(&v.d, o);
});

shape!(U_S5, false, US5, 2, 4, |b, d| {
    let n = fl(b.len(), 2);
    if n < 4 {
        d.short = true;
    } else {
        d.c.put16(rd16(b, 0));
        if let Some(u) = dec_vec(El::U16, 1, 1, &b[2..n], 2, d) {
            d.used = 2 + u;
            d.ext = ce(2 + u, 2);
        }
    }
}, |v, o| {
    o.at(&v.a);
    o.c.put16(v.a);
    o.lc(v.v.len(), v.v.capacity());
    let s = v.v.as_slice();
    o.slice(s);
    o.c.put(s.len() as u8);
    let mut i = 0;
    while i < s.len() {
        o.c.put16(s[i]);
        i += 1;
    }
});

shape!(U_PS, false, PUS, 1, 4, |b, d| {
    if b.len() < 4 {
        d.short = true;
    } else {
        d.c.put16(rd16(b, 0));
        if let Some(u) = dec_vec(El::LeU16, 2, 1, &b[2..], 2, d) {
            d.used = 2 + u;
            d.ext = 2 + u;
        }
    }
}, |v, o| {
    o.at(&v.a);
    o.c.put16(u16::from(v.a));
    o.lc(v.b.len(), v.b.capacity());
    let s = v.b.as_slice();
    o.slice(s);
    o.c.put(s.len() as u8);
    let mut i = 0;
    while i < s.len() {
        o.c.put16(u16::from(s[i]));
        i += 1;
    }
});

// =================================== unsized enums ===================================

shape!(U_E1, UE1, 4, 4, |b, d| {
    if b.len() < 4 {
        d.short = true;
    } else {
        let dn = fl(b.len() - 4, 4); // data bytes
        let t = b[0];
        if t > 2 {
            d.mark(0);
        } else {
            d.c.put(t);
            match t {
                0 => {
                    d.used = 1;
                    d.ext = 4;
                }
                1 => {
                    if dn < 4 {
                        d.short = true;
                    } else {
                        d.c.put(b[4]);
                        d.c.put16(rd16(b, 6));
                        d.used = 8;
                        d.ext = 8;
                    }
                }
                _ => {
                    if dn < 6 {
                        d.short = true;
                    } else {
                        d.c.put32(rd32(b, 4));
                        if let Some(u) = dec_vec(El::U8, 2, 2, &b[8..4 + dn], 8, d) {
                            d.used = 8 + u;
                            d.ext = ce(8 + u, 4);
                        }
                    }
                }
            }
        }
    }
}, |v, o| {
    match v.as_ref() {
        UE1Ref::A => o.c.put(0),
        UE1Ref::B(x, y) => {
            o.c.put(1);
            o.at(x);
            o.at(y);
            o.c.put(*x);
            o.c.put16(*y);
        }
        UE1Ref::C { offset, bytes } => {
            o.c.put(2);
            o.at(offset);
            o.c.put32(*offset);
            obs_vec_u8(bytes, o);
        }
    }
});

shape!(U_E2, UE2, 1, 1, |b, d| {
    if b.len() < 1 {
        d.short = true;
    } else {
        let t = b[0];
        if t > 2 {
            d.mark(0);
        } else {
            d.c.put(t);
            match t {
                0 => {
                    d.used = 1;
                    d.ext = 1;
                }
                1 => {
                    if b.len() < 2 {
                        d.short = true;
                    } else {
                        dec_bool(b, 1, 0, d);
                        d.used = 2;
                        d.ext = 2;
                    }
                }
                _ => {
                    if b.len() < 2 {
                        d.short = true;
                    } else if let Some(u) = dec_vec(El::U8, 1, 1, &b[1..], 1, d) {
                        d.used = 1 + u;
                        d.ext = 1 + u;
                    }
                }
            }
        }
    }
}, |v, o| {
    match v.as_ref() {
        UE2Ref::A => o.c.put(0),
        UE2Ref::B(x) => {
            o.c.put(1);
            obs_bool(x, o);
        }
        UE2Ref::C(w) => {
            o.c.put(2);
            obs_vec_u8(w, o);
        }
    }
});

shape!(U_E3, UE3, 2, 2, |b, d| {
    let n = b.len();
    if n < 2 {
        d.short = true;
    } else {
        let dn = fl(n - 2, 2);
        let t = rd16(b, 0);
        if t > 2 {
            d.mark(0);
            d.mark(1);
        } else {
            d.c.put(t as u8);
            match t {
                0 => {
                    d.used = 2;
                    d.ext = 2;
                }
                1 => {
                    if dn < 4 {
                        d.short = true;
                    } else {
                        dec_bool(b, 2, 0, d);
                        d.c.put16(rd16(b, 4));
                        d.used = 6;
                        d.ext = 6;
                    }
                }
                _ => {
                    if dn < 2 {
                        d.short = true;
                    } else {
                        d.c.put(b[2]);
                        if let Some(u) = dec_vec(El::U8, 1, 1, &b[3..2 + dn], 3, d) {
                            d.used = 3 + u;
                            d.ext = ce(3 + u, 2);
                        }
                    }
                }
            }
        }
    }
}, |v, o| {
    match v.as_ref() {
        UE3Ref::A => o.c.put(0),
        UE3Ref::B(x, y) => {
            o.c.put(1);
            obs_bool(x, o);
            o.at(y);
            o.c.put16(*y);
        }
        UE3Ref::C { x, v: w } => {
            o.c.put(2);
            o.at(x);
            o.c.put(*x);
            obs_vec_u8(w, o);
        }
    }
});

shape!(U_E4, UE4, 2, 2, |b, d| {
    let n = b.len();
    if n < 2 {
        d.short = true;
    } else {
        let dn = fl(n - 2, 2);
        let t = b[0];
        if t > 1 {
            d.mark(0);
        } else {
            d.c.put(t);
            if t == 0 {
                d.used = 1;
                d.ext = 2;
            } else if dn < 6 {
                d.short = true;
            } else {
                d.c.put(b[2]);
                d.c.put16(rd16(b, 4));
                if let Some(u) = dec_vec(El::U8, 1, 1, &b[6..2 + dn], 6, d) {
                    d.used = 6 + u;
                    d.ext = ce(6 + u, 2);
                }
            }
        }
    }
}, |v, o| {
    match v.as_ref() {
        UE4Ref::A => o.c.put(0),
        UE4Ref::S(s) => {
            o.c.put(1);
            o.at(&s.a);
            o.at(&s.b);
            o.c.put(s.a);
            o.c.put16(s.b);
            obs_vec_u8(&s.c, o);
        }
    }
});

shape!(U_E5, false, UE5, 4, 4, |b, d| {
    if b.len() < 4 {
        d.short = true;
    } else {
        let dn = fl(b.len() - 4, 4);
        let t = b[0];
        if t > 1 {
            d.mark(0);
        } else {
            d.c.put(t);
            if t == 0 {
                d.used = 1;
                d.ext = 4;
            } else if dn < 9 {
                d.short = true;
            } else {
                d.c.put(b[4]);
                d.c.put32(rd32(b, 8));
                d.c.put(b[12]);
                d.used = 13;
                d.ext = 16;
            }
        }
    }
}, |v, o| {
    match v.as_ref() {
        UE5Ref::A => o.c.put(0),
        UE5Ref::B(x, y, z) => {
            o.c.put(1);
            o.at(x);
            o.at(y);
            o.at(z);
            o.c.put(*x);
            o.c.put32(*y);
            o.c.put(*z);
        }
    }
});

shape!(U_E6, UE6, 1, 1, |b, d| {
    if b.len() < 1 {
        d.short = true;
    } else {
        let t = b[0];
        if t > 1 {
            d.mark(0);
        } else {
            d.c.put(t);
            if t == 0 {
                d.used = 1;
                d.ext = 1;
            } else if b.len() < 2 {
                d.short = true;
            } else {
                let it = b[1];
                if it > 2 {
                    d.mark(1);
                } else {
                    d.c.put(it);
                    match it {
                        0 => {
                            d.used = 2;
                            d.ext = 2;
                        }
                        1 => {
                            if b.len() < 3 {
                                d.short = true;
                            } else {
                                dec_bool(b, 2, 0, d);
                                d.used = 3;
                                d.ext = 3;
                            }
                        }
                        _ => {
                            if b.len() < 3 {
                                d.short = true;
                            } else if let Some(u) = dec_vec(El::U8, 1, 1, &b[2..], 2, d) {
                                d.used = 2 + u;
                                d.ext = 2 + u;
                            }
                        }
                    }
                }
            }
        }
    }
}, |v, o| {
    match v.as_ref() {
        UE6Ref::A => o.c.put(0),
        UE6Ref::N(inner) => {
            o.c.put(1);
            match inner.as_ref() {
                UE2Ref::A => o.c.put(0),
                UE2Ref::B(x) => {
                    o.c.put(1);
                    obs_bool(x, o);
                }
                UE2Ref::C(w) => {
                    o.c.put(2);
                    obs_vec_u8(w, o);
                }
            }
        }
    }
});

shape!(U_PE, PUE, 1, 1, |b, d| {
    if b.len() < 1 {
        d.short = true;
    } else {
        let t = b[0];
        if t > 2 {
            d.mark(0);
        } else {
            d.c.put(t);
            match t {
                0 => {
                    d.used = 1;
                    d.ext = 1;
                }
                1 => {
                    if b.len() < 3 {
                        d.short = true;
                    } else {
                        d.c.put16(rd16(b, 1));
                        d.used = 3;
                        d.ext = 3;
                    }
                }
                _ => {
                    if b.len() < 5 {
                        d.short = true;
                    } else {
                        d.c.put16(rd16(b, 1));
                        if let Some(u) = dec_vec(El::LeU16, 2, 1, &b[3..], 3, d) {
                            d.used = 3 + u;
                            d.ext = 3 + u;
                        }
                    }
                }
            }
        }
    }
}, |v, o| {
    match v.as_ref() {
        PUERef::A => o.c.put(0),
        PUERef::B(x) => {
            o.c.put(1);
            o.at(x);
            o.c.put16(u16::from(*x));
        }
        PUERef::C(s) => {
            o.c.put(2);
            o.at(&s.a);
            o.c.put16(u16::from(s.a));
            o.lc(s.b.len(), s.b.capacity());
            let sl = s.b.as_slice();
            o.slice(sl);
            o.c.put(sl.len() as u8);
            let mut i = 0;
            while i < sl.len() {
                o.c.put16(u16::from(sl[i]));
                i += 1;
            }
        }
    }
});
