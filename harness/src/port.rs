//! C16: portable scalars, every value of the native type (full width) unless a harness
//! says otherwise. Operators are compared with the native operator on non-overflowing
//! operands (the native operator's own panic on overflow is not the subject).
use core::mem::{align_of, size_of};
use flatty::portable::{be, le, Bool};
use flatty::prelude::*;
use flatty::traits::{FlatBase, FlatSized, FlatValidate};
use flatty::vec::Length;

// num-traits is reached through the trait bounds of stavec's `Length` and through the
// inherent trait methods; import the traits themselves via flatty's dependency graph
use num_traits_shim::*;
mod num_traits_shim {
    pub use ::num_traits::{Bounded, FromPrimitive, NumCast, One, Signed, ToPrimitive, Zero};
}

macro_rules! port_int {
    ($m:ident, $P:ty, $native:ty, $n:literal, $to:ident, $from:ident, signed = $signed:tt) => {
        pub mod $m {
            use super::*;

            #[kani::proof]
            #[kani::unwind(10)]
            fn repr() {
                let x: $native = kani::any();
                let y: $native = kani::any();
                let p = <$P as From<$native>>::from(x);
                let q = <$P as From<$native>>::from(y);
                assert!(size_of::<$P>() == size_of::<$native>(), "size of the native counterpart");
                assert!(align_of::<$P>() == 1 && <$P as FlatBase>::ALIGN == 1, "alignment 1");
                assert!(<$P as FlatSized>::SIZE == $n && <$P as FlatBase>::MIN_SIZE == $n, "flat size");
                let pb = p.to_bytes();
                let xb = x.$to();
                let mut i = 0;
                while i < $n {
                    assert!(pb[i] == xb[i], "stores exactly the fixed-order byte sequence of the value");
                    i += 1;
                }
                assert!(<$native as From<$P>>::from(p) == x, "native -> portable -> native is the identity");
                // arbitrary bytes
                let b: [u8; $n] = kani::any();
                let r = <$P>::from_bytes(b);
                let rb = r.to_bytes();
                let mut i = 0;
                while i < $n {
                    assert!(rb[i] == b[i], "from_bytes/to_bytes keep the bytes");
                    i += 1;
                }
                assert!(<$native as From<$P>>::from(r) == <$native>::$from(b), "value of arbitrary bytes is their fixed-order reading");
                // mapped at an odd address
                let mut buf = [0u8; $n + 1];
                let mut i = 0;
                while i < $n {
                    buf[i + 1] = b[i];
                    i += 1;
                }
                match <$P as FlatValidate>::from_bytes(&buf[1..]) {
                    Ok(m) => assert!(<$native as From<$P>>::from(*m) == <$native>::$from(b), "maps at any address"),
                    Err(_) => assert!(false, "maps at any address"),
                }
                // equality is equality of stored bytes; ordering is the native one
                let qb = q.to_bytes();
                let mut same = true;
                let mut i = 0;
                while i < $n {
                    if pb[i] != qb[i] {
                        same = false;
                    }
                    i += 1;
                }
                assert!((p == q) == same, "equality is equality of the stored bytes");
                assert!((p == q) == (x == y), "equality agrees with the native type");
                assert!(p.cmp(&q) == x.cmp(&y), "Ord agrees with the native type");
                assert!(p.partial_cmp(&q) == Some(x.cmp(&y)), "PartialOrd agrees with the native type");
                assert!((p < q) == (x < y) && (p >= q) == (x >= y), "comparison operators agree");
                // constants
                assert!(<$native as From<$P>>::from(<$P as Zero>::zero()) == 0 && <$native as From<$P>>::from(<$P as One>::one()) == 1, "zero / one");
                assert!(<$native as From<$P>>::from(<$P as Bounded>::min_value()) == <$native>::MIN, "min_value");
                assert!(<$native as From<$P>>::from(<$P as Bounded>::max_value()) == <$native>::MAX, "max_value");
                assert!(p.is_zero() == (x == 0), "is_zero");
                // conversions used for lengths
                assert!(p.to_u64() == x.to_u64() && p.to_i64() == x.to_i64() && p.to_usize() == x.to_usize(), "to_u64 / to_i64 / to_usize");
                let u: u64 = kani::any();
                let s: i64 = kani::any();
                let z: usize = kani::any();
                assert!(<$P>::from_u64(u).map(<$native as From<$P>>::from) == <$native>::from_u64(u), "from_u64");
                assert!(<$P>::from_i64(s).map(<$native as From<$P>>::from) == <$native>::from_i64(s), "from_i64");
                assert!(<$P>::from_usize(z).map(<$native as From<$P>>::from) == <$native>::from_usize(z), "from_usize");
                assert!(<$P as NumCast>::from(u).map(<$native as From<$P>>::from) == <$native as NumCast>::from(u), "NumCast::from");
                kani::cover!(p == q && x != 0, "w:equal-nonzero");
                kani::cover!(p < q, "w:less");
            }

            #[kani::proof]
            #[kani::unwind(4)]
            fn addsub() {
                let x: $native = kani::any();
                let y: $native = kani::any();
                let p = <$P as From<$native>>::from(x);
                let q = <$P as From<$native>>::from(y);
                if let Some(r) = x.checked_add(y) {
                    assert!(<$native as From<$P>>::from(p + q) == r, "Add");
                    let mut t = p;
                    t += q;
                    assert!(<$native as From<$P>>::from(t) == r, "AddAssign");
                }
                if let Some(r) = x.checked_sub(y) {
                    assert!(<$native as From<$P>>::from(p - q) == r, "Sub");
                    let mut t = p;
                    t -= q;
                    assert!(<$native as From<$P>>::from(t) == r, "SubAssign");
                }
                port_int!(@signed $signed, $P, $native, x, p);
                kani::cover!(x.checked_add(y).is_some() && x != 0 && y != 0, "w:add");
            }

            /// operands below 2^16 (products are exact for every type): full-width multipliers
            /// and dividers stall bit-blasting; the operator bodies are the same macro text for
            /// all 12 types, full-width cases are outside this claim
            #[kani::proof]
            #[kani::unwind(4)]
            fn muldiv() {
                muldiv_body(256, 128)
            }

            /// thorough tier: operands |x| < 4096, |y| < 256
            #[kani::proof]
            #[kani::unwind(4)]
            fn muldiv_wide() {
                muldiv_body(4096, 256)
            }

            fn muldiv_body(bx: i128, by: i128) {
                let x: $native = kani::any();
                let y: $native = kani::any();
                kani::assume((x as i128) < bx && (x as i128) > -bx && (y as i128) < by && (y as i128) > -by);
                let p = <$P as From<$native>>::from(x);
                let q = <$P as From<$native>>::from(y);
                if let Some(r) = x.checked_mul(y) {
                    assert!(<$native as From<$P>>::from(p * q) == r, "Mul");
                    let mut t = p;
                    t *= q;
                    assert!(<$native as From<$P>>::from(t) == r, "MulAssign");
                }
                if let Some(r) = x.checked_div(y) {
                    assert!(<$native as From<$P>>::from(p / q) == r, "Div");
                    let mut t = p;
                    t /= q;
                    assert!(<$native as From<$P>>::from(t) == r, "DivAssign");
                }
                if let Some(r) = x.checked_rem(y) {
                    assert!(<$native as From<$P>>::from(p % q) == r, "Rem");
                    let mut t = p;
                    t %= q;
                    assert!(<$native as From<$P>>::from(t) == r, "RemAssign");
                }
                kani::cover!(y != 0 && x.checked_rem(y) != Some(0), "w:nonzero-remainder");
            }
        }
    };
    (@signed true, $P:ty, $native:ty, $x:ident, $p:ident) => {
        if let Some(r) = $x.checked_neg() {
            assert!(<$native as From<$P>>::from(-$p) == r, "Neg");
        }
        if let Some(r) = $x.checked_abs() {
            assert!(<$native as From<$P>>::from($p.abs()) == r, "abs");
        }
        assert!(<$native as From<$P>>::from($p.signum()) == $x.signum(), "signum");
        assert!($p.is_positive() == $x.is_positive() && $p.is_negative() == $x.is_negative(), "is_positive / is_negative");
    };
    (@signed false, $P:ty, $native:ty, $x:ident, $p:ident) => {};
}

port_int!(le_u16, le::U16, u16, 2, to_le_bytes, from_le_bytes, signed = false);
port_int!(le_u32, le::U32, u32, 4, to_le_bytes, from_le_bytes, signed = false);
port_int!(le_u64, le::U64, u64, 8, to_le_bytes, from_le_bytes, signed = false);
port_int!(le_i16, le::I16, i16, 2, to_le_bytes, from_le_bytes, signed = true);
port_int!(le_i32, le::I32, i32, 4, to_le_bytes, from_le_bytes, signed = true);
port_int!(le_i64, le::I64, i64, 8, to_le_bytes, from_le_bytes, signed = true);
port_int!(be_u16, be::U16, u16, 2, to_be_bytes, from_be_bytes, signed = false);
port_int!(be_u32, be::U32, u32, 4, to_be_bytes, from_be_bytes, signed = false);
port_int!(be_u64, be::U64, u64, 8, to_be_bytes, from_be_bytes, signed = false);
port_int!(be_i16, be::I16, i16, 2, to_be_bytes, from_be_bytes, signed = true);
port_int!(be_i32, be::I32, i32, 4, to_be_bytes, from_be_bytes, signed = true);
port_int!(be_i64, be::I64, i64, 8, to_be_bytes, from_be_bytes, signed = true);

macro_rules! port_float {
    ($m:ident, $P:ty, $native:ty, $bits:ty, $n:literal, $to:ident, $from:ident) => {
        pub mod $m {
            use super::*;

            #[kani::proof]
            #[kani::unwind(10)]
            fn repr() {
                let xb: $bits = kani::any();
                let yb: $bits = kani::any();
                let x = <$native>::from_bits(xb);
                let y = <$native>::from_bits(yb);
                let p = <$P as From<$native>>::from(x);
                let q = <$P as From<$native>>::from(y);
                assert!(size_of::<$P>() == size_of::<$native>() && align_of::<$P>() == 1 && <$P as FlatBase>::ALIGN == 1, "size / alignment");
                let pb = p.to_bytes();
                let eb = x.$to();
                let mut i = 0;
                while i < $n {
                    assert!(pb[i] == eb[i], "stores exactly the fixed-order byte sequence of the value");
                    i += 1;
                }
                assert!(<$native as From<$P>>::from(p).to_bits() == xb, "lossless for every bit pattern, NaN payloads included");
                let b: [u8; $n] = kani::any();
                let r = <$P>::from_bytes(b);
                assert!(<$native as From<$P>>::from(r).to_bits() == <$native>::$from(b).to_bits(), "value of arbitrary bytes");
                let rb = r.to_bytes();
                let mut i = 0;
                while i < $n {
                    assert!(rb[i] == b[i], "from_bytes/to_bytes keep the bytes");
                    i += 1;
                }
                let qb = q.to_bytes();
                let mut same = true;
                let mut i = 0;
                while i < $n {
                    if pb[i] != qb[i] {
                        same = false;
                    }
                    i += 1;
                }
                assert!((p == q) == same, "equality is equality of the stored bytes");
                assert!(p.partial_cmp(&q) == x.partial_cmp(&y), "PartialOrd agrees with the native type");
                assert!(<$native as From<$P>>::from(<$P as Zero>::zero()).to_bits() == (0.0 as $native).to_bits(), "zero");
                assert!(<$native as From<$P>>::from(<$P as One>::one()).to_bits() == (1.0 as $native).to_bits(), "one");
                assert!(<$native as From<$P>>::from(<$P as Bounded>::min_value()).to_bits() == <$native>::MIN.to_bits(), "min_value");
                assert!(<$native as From<$P>>::from(<$P as Bounded>::max_value()).to_bits() == <$native>::MAX.to_bits(), "max_value");
                assert!(<$native as From<$P>>::from(-p).to_bits() == (-x).to_bits(), "Neg");
                // conversions from the integers containers use (every u64 / i64 / usize value)
                let u: u64 = kani::any();
                let si: i64 = kani::any();
                let z: usize = kani::any();
                assert!(<$P>::from_u64(u).map(|v| <$native as From<$P>>::from(v).to_bits()) == <$native>::from_u64(u).map(|v| v.to_bits()), "from_u64 rounds like the native type");
                assert!(<$P>::from_i64(si).map(|v| <$native as From<$P>>::from(v).to_bits()) == <$native>::from_i64(si).map(|v| v.to_bits()), "from_i64 rounds like the native type");
                assert!(<$P>::from_usize(z).map(|v| <$native as From<$P>>::from(v).to_bits()) == <$native>::from_usize(z).map(|v| v.to_bits()), "from_usize rounds like the native type");
                assert!(<$P as NumCast>::from(u).map(|v| <$native as From<$P>>::from(v).to_bits()) == <$native as NumCast>::from(u).map(|v| v.to_bits()), "NumCast::from(u64) rounds like the native type");
                assert!(<$P as NumCast>::from(si).map(|v| <$native as From<$P>>::from(v).to_bits()) == <$native as NumCast>::from(si).map(|v| v.to_bits()), "NumCast::from(i64) rounds like the native type");
                kani::cover!(x.is_nan() && (xb & 1) == 1, "w:nan-payload");
                kani::cover!(p == q && x != 0.0, "w:equal");
            }
        }
    };
}

port_float!(le_f32, le::F32, f32, u32, 4, to_le_bytes, from_le_bytes);
port_float!(le_f64, le::F64, f64, u64, 8, to_le_bytes, from_le_bytes);
port_float!(be_f32, be::F32, f32, u32, 4, to_be_bytes, from_be_bytes);
port_float!(be_f64, be::F64, f64, u64, 8, to_be_bytes, from_be_bytes);

pub mod f32_arith {
    use super::*;
    /// add / sub / mul of f32 (bit-exact against the native operator)
    #[kani::proof]
    #[kani::unwind(4)]
    fn le_addsub() {
        let x = f32::from_bits(kani::any());
        let y = f32::from_bits(kani::any());
        let (p, q) = (<le::F32 as From<f32>>::from(x), <le::F32 as From<f32>>::from(y));
        assert!(<f32 as From<le::F32>>::from(p + q).to_bits() == (x + y).to_bits() || (x + y).is_nan(), "Add");
        assert!(<f32 as From<le::F32>>::from(p - q).to_bits() == (x - y).to_bits() || (x - y).is_nan(), "Sub");
        let mut t = p;
        t += q;
        assert!(<f32 as From<le::F32>>::from(t).to_bits() == (x + y).to_bits() || (x + y).is_nan(), "AddAssign");
    }
    #[kani::proof]
    #[kani::unwind(4)]
    fn be_addsub() {
        let x = f32::from_bits(kani::any());
        let y = f32::from_bits(kani::any());
        let (p, q) = (<be::F32 as From<f32>>::from(x), <be::F32 as From<f32>>::from(y));
        assert!(<f32 as From<be::F32>>::from(p + q).to_bits() == (x + y).to_bits() || (x + y).is_nan(), "Add");
        assert!(<f32 as From<be::F32>>::from(p - q).to_bits() == (x - y).to_bits() || (x - y).is_nan(), "Sub");
    }
}

pub mod bool_ {
    use super::*;
    #[kani::proof]
    #[kani::unwind(4)]
    fn repr() {
        let b: u8 = kani::any();
        let bytes = [b];
        let r = <Bool as FlatValidate>::from_bytes(&bytes);
        assert!(r.is_ok() == (b <= 1), "validation accepts exactly 0 and 1");
        if let Ok(v) = r {
            assert!(bool::from(*v) == (b == 1), "0 is false, 1 is true");
        }
        let x: bool = kani::any();
        let y: bool = kani::any();
        let (p, q) = (Bool::from(x), Bool::from(y));
        assert!(size_of::<Bool>() == 1 && align_of::<Bool>() == 1, "one byte, alignment 1");
        assert!(p as u8 == x as u8, "stores 0 / 1");
        assert!(bool::from(p) == x, "lossless");
        assert!(bool::from(!p) == !x && bool::from(p & q) == (x & y) && bool::from(p | q) == (x | y) && bool::from(p ^ q) == (x ^ y), "operators");
        let mut t = p;
        t &= q;
        assert!(bool::from(t) == (x & y), "BitAndAssign");
        let mut t = p;
        t |= q;
        assert!(bool::from(t) == (x | y), "BitOrAssign");
        let mut t = p;
        t ^= q;
        assert!(bool::from(t) == (x ^ y), "BitXorAssign");
        assert!((p == q) == (x == y) && p.cmp(&q) == x.cmp(&y), "Eq / Ord");
        assert!(Bool::default() == Bool::False, "default is false");
        kani::cover!(b > 1, "w:rejected");
        kani::cover!(b == 1, "w:true");
    }
}
