//! Byte pipes whose behaviour is chosen by the solver: chunk sizes, failures, Pending results.
use core::pin::Pin;
use core::task::{Context, Poll};
use std::io;

fn any_kind() -> io::ErrorKind {
    let s: u8 = kani::any();
    match s & 3 {
        0 => io::ErrorKind::Other,
        1 => io::ErrorKind::Interrupted,
        2 => io::ErrorKind::WouldBlock,
        _ => io::ErrorKind::BrokenPipe,
    }
}

/// Holds `len` bytes and hands them out in chunks of arbitrary size (1..=what fits).
pub struct Source<const R: usize> {
    pub data: [u8; R],
    pub len: usize,
    pub pos: usize,
    pub calls: usize,
    /// reads may fail
    pub faults: bool,
    pub failed: bool,
    /// a read was issued after a failed one
    pub last_after_fail: bool,
}

impl<const R: usize> Source<R> {
    fn deliver(&mut self, buf: &mut [u8]) -> io::Result<usize> {
        if self.failed {
            self.last_after_fail = true;
        }
        self.calls += 1;
        if self.faults && kani::any::<bool>() {
            self.failed = true;
            return Err(any_kind().into());
        }
        let rem = self.len - self.pos;
        if rem == 0 || buf.is_empty() {
            return Ok(0);
        }
        let max = if rem < buf.len() { rem } else { buf.len() };
        let k: usize = kani::any();
        kani::assume(k >= 1 && k <= max);
        let mut i = 0;
        while i < R {
            if i < k {
                buf[i] = self.data[self.pos + i];
            }
            i += 1;
        }
        self.pos += k;
        Ok(k)
    }
}

impl<const R: usize> io::Read for Source<R> {
    fn read(&mut self, buf: &mut [u8]) -> io::Result<usize> {
        self.deliver(buf)
    }
}

/// Records what is written; accepts 1..=len bytes per call, may fail or accept nothing.
pub struct Sink<const W: usize> {
    pub data: [u8; W],
    pub len: usize,
    pub calls: usize,
    pub faults: bool,
    pub failed: bool,
    pub last_after_fail: bool,
    /// number of bytes that had been written when flush last completed
    pub flushed: usize,
    pub flush_calls: usize,
}

impl<const W: usize> Sink<W> {
    fn accept(&mut self, buf: &[u8]) -> io::Result<usize> {
        if self.failed {
            self.last_after_fail = true;
        }
        self.calls += 1;
        if self.faults {
            let f: u8 = kani::any();
            if f == 1 {
                self.failed = true;
                return Err(any_kind().into());
            }
            if f == 2 {
                self.failed = true;
                return Ok(0);
            }
        }
        let room = W - self.len;
        let max = if room < buf.len() { room } else { buf.len() };
        if max == 0 {
            // more than the recording capacity: the harness asserts this never happens
            self.failed = true;
            return Ok(0);
        }
        let k: usize = kani::any();
        kani::assume(k >= 1 && k <= max);
        let mut i = 0;
        while i < W {
            if i < k {
                self.data[self.len + i] = buf[i];
            }
            i += 1;
        }
        self.len += k;
        Ok(k)
    }
}

impl<const W: usize> io::Write for Sink<W> {
    fn write(&mut self, buf: &[u8]) -> io::Result<usize> {
        self.accept(buf)
    }
    fn flush(&mut self) -> io::Result<()> {
        self.flush_calls += 1;
        self.flushed = self.len;
        Ok(())
    }
}

// ------------------------------------ async flavours ------------------------------------

/// Async source: every poll_read may answer Pending (at most `budget` times in total).
pub struct ASource<const R: usize> {
    pub inner: Source<R>,
    pub pending_budget: usize,
    /// Pending results handed out so far
    pub pendings: usize,
    /// set by poll_read when it returns Pending, cleared by the harness before each poll
    pub pending_this_poll: bool,
}

impl<const R: usize> futures::io::AsyncRead for ASource<R> {
    fn poll_read(mut self: Pin<&mut Self>, _cx: &mut Context<'_>, buf: &mut [u8]) -> Poll<io::Result<usize>> {
        if self.pendings < self.pending_budget && kani::any::<bool>() {
            self.pendings += 1;
            self.pending_this_poll = true;
            return Poll::Pending;
        }
        Poll::Ready(self.inner.deliver(buf))
    }
}

pub struct ASink<const W: usize> {
    pub inner: Sink<W>,
    pub pending_budget: usize,
    pub pendings: usize,
    pub pending_this_poll: bool,
    pub closed: bool,
}

impl<const W: usize> futures::io::AsyncWrite for ASink<W> {
    fn poll_write(mut self: Pin<&mut Self>, _cx: &mut Context<'_>, buf: &[u8]) -> Poll<io::Result<usize>> {
        if self.pendings < self.pending_budget && kani::any::<bool>() {
            self.pendings += 1;
            self.pending_this_poll = true;
            return Poll::Pending;
        }
        Poll::Ready(self.inner.accept(buf))
    }
    fn poll_flush(mut self: Pin<&mut Self>, _cx: &mut Context<'_>) -> Poll<io::Result<()>> {
        if self.pendings < self.pending_budget && kani::any::<bool>() {
            self.pendings += 1;
            self.pending_this_poll = true;
            return Poll::Pending;
        }
        self.inner.flush_calls += 1;
        self.inner.flushed = self.inner.len;
        Poll::Ready(Ok(()))
    }
    fn poll_close(mut self: Pin<&mut Self>, _cx: &mut Context<'_>) -> Poll<io::Result<()>> {
        self.closed = true;
        Poll::Ready(Ok(()))
    }
}
