//! Buffers for harnesses (DESIGN 3.3).
//!
//! `Exact`: a heap object of *symbolic* size `k + n` whose last `n` bytes are the slice
//! handed to the library. The slice ends at the end of the object and starts `k` bytes
//! after its (maximally aligned) base, so any access outside the slice is either before
//! it (visible to canaries / never addressed by the library) or past the object, which
//! CBMC's pointer checks flag. `k` enumerates the address residue modulo the alignment.
use std::alloc::{alloc, Layout};

pub struct Exact {
    ptr: *mut u8,
    pub k: usize,
    pub n: usize,
}

impl Exact {
    /// Object of `k + n` bytes (`k + n <= CAP`), contents taken from `src`.
    pub fn new<const CAP: usize>(k: usize, n: usize, src: &[u8; CAP]) -> Self {
        assert!(k + n <= CAP);
        let total = k + n;
        // a zero-sized allocation is not allowed: keep one spare leading byte in that case
        let (lay_size, shift) = if total == 0 { (16, 16) } else { (total, 0) };
        let ptr = unsafe { alloc(Layout::from_size_align(lay_size, 16).unwrap()) };
        assert!(!ptr.is_null());
        let mut i = 0;
        while i < total {
            unsafe { *ptr.add(i) = src[i] };
            i += 1;
        }
        let _ = shift;
        Exact { ptr, k, n }
    }
    pub fn slice(&self) -> &[u8] {
        if self.k + self.n == 0 {
            // empty slice at an aligned, valid (one-past) address
            return unsafe { core::slice::from_raw_parts(self.ptr.add(16), 0) };
        }
        unsafe { core::slice::from_raw_parts(self.ptr.add(self.k), self.n) }
    }
    pub fn slice_mut(&mut self) -> &mut [u8] {
        if self.k + self.n == 0 {
            return unsafe { core::slice::from_raw_parts_mut(self.ptr.add(16), 0) };
        }
        unsafe { core::slice::from_raw_parts_mut(self.ptr.add(self.k), self.n) }
    }
    pub fn base(&self) -> usize {
        self.ptr as usize
    }
}

/// 16-byte aligned array: `&a.0[k..k + n]` has address residue `k` and sits inside a
/// larger object whose remaining bytes serve as canaries.
#[repr(C, align(16))]
#[derive(Clone, Copy)]
pub struct A16<const CAP: usize>(pub [u8; CAP]);
