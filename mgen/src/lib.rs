#![no_std]
#![allow(dead_code)]
use flatty::{flat, vec::Length, Flat, FlatVec};

#[flat(sized = false)]
pub struct GS2<A: Flat, C: Flat, L: Flat + Length> {
    pub a: A,
    pub c: FlatVec<C, L>,
}

#[flat(sized = false)]
pub struct GS3<A: Flat, B: Flat, C: Flat, L: Flat + Length> {
    pub a: A,
    pub b: B,
    pub c: FlatVec<C, L>,
}

#[flat(sized = false)]
pub enum GE<A: Flat, B: Flat, C: Flat, L: Flat + Length> {
    V0,
    V1(A),
    V2 { a: A, b: B },
    V3(B, FlatVec<C, L>),
}
