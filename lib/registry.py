"""Which harnesses / obligations decide which property, per tier, with their caps.

H(name, t, mem, bounds, what): engine-K harness `name` (pretty name inside the harness
crate), CBMC time cap t seconds, address-space cap mem GB."""


def H(name, t=300, mem=6, bounds="", what="", tier="quick", **kw):
    d = {"engine": "K", "name": name, "timeout_s": t, "mem_gb": mem, "bounds": bounds, "what": what,
         "tier": tier}
    d.update(kw)
    return d


def M(name, tier="quick", **kw):
    d = {"engine": "M", "name": name, "tier": tier}
    d.update(kw)
    return d


COMMON_ASSUME = [
    "rustc MIR -> Kani GOTO translation, CBMC 6.11 bit-blasting and CaDiCaL are sound",
    "dev profile semantics (overflow checks on), x86-64 little-endian host",
    "results hold only inside the stated byte / unwind / item bounds; unwinding assertions are on, so a loop that could exceed its bound is reported, not truncated",
]

PROPS = {}
NOT_CLAIMED = {}
HOOK_COMMITS = ["35a0230"]


def prop(pid, title, level_text, outside, harnesses, assumptions=()):
    PROPS[pid] = {"title": title, "level_text": level_text, "outside": list(outside),
                  "harnesses": harnesses, "assumptions": list(assumptions)}


def jobs_for(pid, tier, seed):
    js = PROPS[pid]["harnesses"]
    if tier == "quick":
        return [j for j in js if j["tier"] == "quick"]
    return list(js)


def evidence_skeleton(pid, tier, seed):
    P = PROPS[pid]
    return {
        "property_id": pid,
        "tier": tier,
        "seed": seed,
        "level": "model_checking",
        "coverage": {
            "rule": ("one case = one CBMC property (assertion, panic, overflow, pointer, unwinding check) of one "
                     "harness, decided by the SAT solver for all symbolic inputs inside the harness bounds, or one "
                     "SMT obligation of engine M; non-trivial = Kani's reachability check shows the check is reachable "
                     "and the solver proved it (distinct by harness and check id)"),
            "explanation": P["level_text"],
            "outside_bounds": P["outside"],
            "ignored_check_classes": ["Kani 'NaN on ...' float instrumentation", "reachability_check (used for vacuity)"],
        },
        "assumptions": COMMON_ASSUME + P["assumptions"],
    }


from registry_props import *  # noqa: E402,F401,F403
