"""Engine M: a small symbolic executor for loop-free rustc MIR (text form of
`-Zunpretty=mir`) of *generic* functions, producing SMT-LIB2 queries.

In generic MIR the associated constants `<T as FlatBase>::ALIGN`, `<T as FlatSized>::SIZE`
stay unevaluated; they become free integer variables, so one query covers every field type
at once (the quantifier over type definitions that Kani, which sees monomorphised code with
folded constants, cannot reach).

Encoding: mathematical integers. Every machine integer input is constrained to [0, 2^64);
`AddWithOverflow/SubWithOverflow/MulWithOverflow` + `assert(!overflow)` of the MIR become
proof obligations ("the exact result lies in [0, 2^64)") and, once discharged, the exact
value is the machine value. `Div/Rem` get fresh quotient/remainder variables with the
division lemma (bit-blasting 64-bit dividers does not finish). Functions with a CFG
back-edge are rejected. Callees whose MIR is in the dump are inlined; a fixed list of core
items is axiomatised (see AXIOMS); anything else is an uninterpreted function."""
import re

U64 = 2 ** 64


class Unsupported(Exception):
    pass


# ------------------------------------------------------------------ parsing

class Func:
    def __init__(self, name, params, blocks, is_const, header):
        self.name, self.params, self.blocks, self.is_const, self.header = name, params, blocks, is_const, header


def parse_mir(text):
    """Returns list of Func. blocks: {bbN: (statements[], terminator)}"""
    funcs = []
    lines = text.split("\n")
    i = 0
    while i < len(lines):
        ln = lines[i]
        if (ln.startswith("fn ") or ln.startswith("const ")) and ln.endswith("{"):
            kind = "fn" if ln.startswith("fn ") else "const"
            header = ln
            if kind == "fn":
                mm = re.match(r"^fn (.+?)\((.*)\) -> (.+) \{$", ln)
                if not mm:
                    i += 1
                    continue
                name = mm.group(1)
                params = re.findall(r"(_\d+): ", mm.group(2))
            else:
                mm = re.match(r"^const (.+): \w+ = \{$", ln)
                if not mm:
                    i += 1
                    continue
                name = mm.group(1)
                params = []
            i += 1
            blocks = {}
            cur = None
            depth = 1
            while i < len(lines) and depth > 0:
                l = lines[i].strip()
                if re.match(r"^bb\d+( \(cleanup\))?: \{$", l):
                    cur = re.match(r"^(bb\d+)", l).group(1)
                    blocks[cur] = {"stmts": [], "cleanup": "(cleanup)" in l}
                    depth += 1
                elif l == "}":
                    depth -= 1
                    if depth == 1:
                        cur = None
                elif l.startswith("scope ") and l.endswith("{"):
                    depth += 1
                elif cur is not None and l:
                    blocks[cur]["stmts"].append(l)
                i += 1
            funcs.append(Func(name, params, blocks, kind == "const", header))
        else:
            i += 1
    return funcs


# ------------------------------------------------------------------ values

class V:
    """symbolic value"""


class I(V):  # integer / bool term (SMT string)
    def __init__(self, t, is_bool=False):
        self.t, self.is_bool = t, is_bool


class Tup(V):
    def __init__(self, items):
        self.items = items


class Fat(V):  # wide pointer: (address, metadata)
    def __init__(self, addr, meta):
        self.addr, self.meta = addr, meta


class Opt(V):  # Option<usize>
    def __init__(self, some, val):
        self.some, self.val = some, val


class Opaque(V):
    def __init__(self, name):
        self.name = name


class Ctx:
    def __init__(self, funcs):
        self.funcs = funcs
        self.fresh = 0
        self.decls = []  # (name, sort)
        self.symbols = {}  # const path -> var name

    def new(self, base, sort="Int"):
        self.fresh += 1
        n = "%s!%d" % (re.sub(r"[^A-Za-z0-9_.]", "_", base), self.fresh)
        self.decls.append((n, sort))
        return n

    def sym(self, path):
        """free variable for an unevaluated associated constant"""
        if path not in self.symbols:
            n = re.sub(r"[^A-Za-z0-9_.]", "_", path)
            self.symbols[path] = n
            self.decls.append((n, "Int"))
        return self.symbols[path]


class Path:
    def __init__(self):
        self.assume = []  # SMT bool terms
        self.oblig = []  # (description, [assumptions at that point], condition)
        self.calls = []  # (callee, [arg values])
        self.env = {}

    def fork(self):
        p = Path()
        p.assume = list(self.assume)
        p.oblig = list(self.oblig)
        p.calls = list(self.calls)
        p.env = dict(self.env)
        return p


def find_func(ctx, pattern, want_const=None):
    """pattern: regex on the function name, optionally followed by ' @@ ' and a regex on the
    whole header line (to select by signature rather than by source line numbers)."""
    hp = None
    if " @@ " in pattern:
        pattern, hp = pattern.split(" @@ ", 1)
    c = [f for f in ctx.funcs if re.search(pattern, f.name) and (want_const is None or f.is_const == want_const)
         and (hp is None or re.search(hp, f.header))]
    if not c:
        raise Unsupported("no MIR for " + pattern)
    return c[0]  # const fns appear twice (runtime + const-eval MIR): identical bodies


# associated-constant paths that are defined by MIR const items in the dumps: resolved by
# executing that item; everything else is a free variable
CONST_ITEMS = [
    (r"<vec::FlatVec<T, L> as vec::DataOffset<T, L>>::DATA_OFFSET", r"^vec::DataOffset::DATA_OFFSET$"),
    (r"<vec::FlatVec<T, L> as flatty_base::traits::FlatBase>::ALIGN", r"^vec::<impl at containers/src/vec\.rs:\d+:1: \d+:\d+>::ALIGN$"),
    (r"<vec::FlatVec<T, L> as flatty_base::traits::FlatBase>::MIN_SIZE", r"^vec::<impl at containers/src/vec\.rs:\d+:1: \d+:\d+>::MIN_SIZE$"),
    (r"<string::FlatString<L> as string::DataOffset<L>>::DATA_OFFSET", r"^string::DataOffset::DATA_OFFSET$"),
    (r"<string::FlatString<L> as flatty_base::traits::FlatBase>::ALIGN", r"^string::<impl at containers/src/string\.rs:\d+:1: \d+:\d+>::ALIGN$"),
    (r"<flex::FlexVec<T, L> as flatty_base::traits::FlatBase>::ALIGN", r"^flex::<impl at containers/src/flex\.rs:\d+:1: \d+:\d+>::ALIGN$"),
    (r"flex::FlexVec::<T, L>::OFFSET_SIZE", r"^flex::<impl at containers/src/flex\.rs:\d+:1: \d+:\d+>::OFFSET_SIZE$"),
]

INLINE = {
    "ceil_mul": r"^ceil_mul$",
    "floor_mul": r"^floor_mul$",
    "utils::max": r"^utils::max$",
    "utils::min": r"^utils::min$",
    "max": r"^utils::max$",
    "min": r"^utils::min$",
    "flatty_base::utils::max": r"^utils::max$",
    "flatty_base::utils::min": r"^utils::min$",
    "flatty_base::utils::ceil_mul": r"^ceil_mul$",
    "flatty_base::utils::floor_mul": r"^floor_mul$",
}


def const_value(ctx, path_expr, p):
    path_expr = path_expr.strip()
    m = re.match(r"^(-?\d+)_(usize|isize|u8|u16|u32|u64|i32|i64)$", path_expr)
    if m:
        return I(str(int(m.group(1))))
    if path_expr in ("true", "false"):
        return I(path_expr, True)
    if path_expr == "core::num::<impl usize>::MAX":
        return I(str(U64 - 1))
    for pat, item in CONST_ITEMS:
        if path_expr == pat:
            f = find_func(ctx, item, want_const=True)
            paths = execute(ctx, f, [], p)
            if len(paths) != 1:
                # a branching const body (max): merge with ite
                return merge_returns(paths, p)
            q, ret = paths[0]
            p.assume[:] = q.assume
            p.oblig[:] = q.oblig
            return ret
    if path_expr.startswith("<") or "::" in path_expr:
        return I(ctx.sym(path_expr))
    raise Unsupported("const " + path_expr)


def merge_returns(paths, p):
    """ite over path conditions (paths differ only by appended assumptions)."""
    base = len(p.assume)
    term = None
    for q, ret in reversed(paths):
        cond = "(and true %s)" % " ".join(q.assume[base:]) if len(q.assume) > base else "true"
        if not isinstance(ret, I):
            raise Unsupported("merge of non-integer")
        term = ret.t if term is None else "(ite %s %s %s)" % (cond, ret.t, term)
        for o in q.oblig[len(p.oblig):]:
            p.oblig.append(o)
    return I(term)


def split_args(s):
    out, depth, cur = [], 0, ""
    for ch in s:
        if ch in "([{<":
            depth += 1
        elif ch in ")]}>":
            depth -= 1
        if ch == "," and depth == 0:
            out.append(cur.strip())
            cur = ""
        else:
            cur += ch
    if cur.strip():
        out.append(cur.strip())
    return out


def read_place(ctx, p, place):
    place = place.strip()
    m = re.match(r"^\((.+)\.(\d+): .+\)$", place)
    if m:
        base = read_place(ctx, p, m.group(1))
        k = int(m.group(2))
        if isinstance(base, Tup):
            return base.items[k]
        raise Unsupported("field of non-aggregate: " + place)
    m = re.match(r"^\(\*(.+)\)$", place)
    if m:
        return read_place(ctx, p, m.group(1))  # references are modelled as the value itself
    if re.match(r"^_\d+$", place):
        if place not in p.env:
            raise Unsupported("read of unset local " + place)
        return p.env[place]
    raise Unsupported("place " + place)


def operand(ctx, p, s):
    s = s.strip()
    if s.startswith("copy ") or s.startswith("move "):
        return read_place(ctx, p, s[5:])
    if s.startswith("const "):
        return const_value(ctx, s[6:], p)
    return read_place(ctx, p, s)


def rvalue(ctx, p, s):
    s = s.strip()
    m = re.match(r"^(Add|Sub|Mul)WithOverflow\((.+)\)$", s)
    if m:
        a, b = [operand(ctx, p, x) for x in split_args(m.group(2))]
        op = {"Add": "+", "Sub": "-", "Mul": "*"}[m.group(1)]
        val = "(%s %s %s)" % (op, a.t, b.t)
        ovf = "(or (< %s 0) (>= %s %d))" % (val, val, U64)
        return Tup([I(val), I(ovf, True)])
    m = re.match(r"^(Add|Sub|Mul|Div|Rem|Eq|Ne|Lt|Le|Gt|Ge|BitAnd|BitOr)\((.+)\)$", s)
    if m:
        a, b = [operand(ctx, p, x) for x in split_args(m.group(2))]
        k = m.group(1)
        if k in ("Add", "Sub", "Mul"):
            # unchecked (wrapping in release): only met after an explicit check in these functions
            return I("(%s %s %s)" % ({"Add": "+", "Sub": "-", "Mul": "*"}[k], a.t, b.t))
        if k in ("Div", "Rem"):
            q = ctx.new("q")
            r = ctx.new("r")
            p.assume.append("(=> (> %s 0) (and (= %s (+ (* %s %s) %s)) (>= %s 0) (< %s %s) (>= %s 0)))" % (b.t, a.t, q, b.t, r, r, r, b.t, q))
            return I(q if k == "Div" else r)
        if k in ("Eq", "Ne", "Lt", "Le", "Gt", "Ge"):
            o = {"Eq": "=", "Ne": "distinct", "Lt": "<", "Le": "<=", "Gt": ">", "Ge": ">="}[k]
            return I("(%s %s %s)" % (o, a.t, b.t), True)
        raise Unsupported(k)
    m = re.match(r"^Not\((.+)\)$", s)
    if m:
        a = operand(ctx, p, m.group(1))
        return I("(not %s)" % a.t, True)
    m = re.match(r"^(&raw (const|mut) |&mut |&)(.+)$", s)
    if m:
        return read_place(ctx, p, m.group(3))
    m = re.match(r"^(.+) as (.+) \((\w+)\)$", s)
    if m:
        v = operand(ctx, p, m.group(1))
        kind, ty = m.group(3), m.group(2)
        if kind == "PtrToPtr":
            if isinstance(v, Fat) and "[" not in ty and "FlatVec" not in ty and "FlatString" not in ty and "FlexVec" not in ty:
                return I(v.addr)  # wide -> thin
            return v
        if kind == "IntToInt":
            return v  # only usize <-> isize of small values in these functions
        raise Unsupported("cast " + kind)
    m = re.match(r"^\((.*)\)$", s)
    if m and not s.startswith("(_") and not s.startswith("(*"):
        return Tup([operand(ctx, p, x) for x in split_args(m.group(1))])
    m = re.match(r"^[\w:<>, ]+ \{ (.*) \}$", s)
    if m:
        fields = split_args(m.group(1))
        return Tup([operand(ctx, p, f.split(": ", 1)[1]) for f in fields])
    return operand(ctx, p, s)


AXIOM_NOTES = [
    "slice_ptr_len / NonNull::len: metadata of a wide pointer",
    "slice_from_raw_parts_mut(ptr, n): wide pointer (ptr, n)",
    "usize::checked_div(a, b) = if b == 0 None else Some(a / b); Option::unwrap_or",
    "PtrToPtr casts keep address and metadata; references are the referent",
    "Deref of FlatVec/FlatString is the identity on the wide pointer",
]


def call(ctx, p, callee, args):
    callee = callee.strip()
    base = re.sub(r"::<[^()]*>$", "", callee)
    if base in INLINE:
        f = find_func(ctx, INLINE[base])
        paths = execute(ctx, f, args, p)
        return paths  # list of (path, ret)
    if base in ("slice_ptr_len", "flatty_base::utils::mem::slice_ptr_len", "NonNull::<[T]>::len"):
        a = args[0]
        if not isinstance(a, Fat):
            raise Unsupported("slice_ptr_len of thin pointer")
        return [(p, I(a.meta))]
    if base in ("slice_from_raw_parts_mut", "core::ptr::slice_from_raw_parts_mut", "set_slice_ptr_len"):
        a = args[0]
        addr = a.addr if isinstance(a, Fat) else a.t
        return [(p, Fat(addr, args[1].t))]
    if base == "core::num::<impl usize>::checked_div":
        a, b = args
        q = ctx.new("q")
        r = ctx.new("r")
        p.assume.append("(=> (> %s 0) (and (= %s (+ (* %s %s) %s)) (>= %s 0) (< %s %s) (>= %s 0)))" % (b.t, a.t, q, b.t, r, r, r, b.t, q))
        return [(p, Opt("(distinct %s 0)" % b.t, q))]
    if base == "Option::<usize>::unwrap_or":
        o, d = args
        return [(p, I("(ite %s %s %s)" % (o.some, o.val, d.t)))]
    if re.search(r"as Deref>::deref$|as DerefMut>::deref_mut$", base):
        return [(p, args[0])]
    # uninterpreted: record the call, return a fresh value
    p.calls.append((callee, args))
    v = ctx.new("ret_" + re.sub(r"[^A-Za-z0-9]", "_", base)[-30:])
    return [(p, I(v))]


def execute(ctx, f, args, p0, depth=0):
    """Returns [(path, return value)]. Paths start as forks of p0 (assumptions are shared)."""
    if depth > 6:
        raise Unsupported("call depth")
    # reject loops: a block reachable from itself
    order = list(f.blocks)
    done = []
    work = []
    p = p0.fork()
    saved_env = p.env
    p.env = {}
    for name, val in zip(f.params, args):
        p.env[name] = val
    work.append((p, "bb0", ()))
    while work:
        p, bb, seen = work.pop()
        if bb in seen:
            raise Unsupported("loop in " + f.name)
        seen = seen + (bb,)
        blk = f.blocks[bb]
        if blk["cleanup"]:
            continue
        nxt = None
        for st in blk["stmts"]:
            st = st.rstrip(";")
            if st in ("ConstEvalCounter", "nop") or st.startswith("StorageLive") or st.startswith("StorageDead") or st.startswith("FakeRead") or st.startswith("PlaceMention"):
                continue
            if st == "return":
                done.append((p, p.env.get("_0", Opaque("unit"))))
                nxt = "done"
                break
            if st == "unreachable" or st.startswith("resume"):
                nxt = "done"
                break
            m = re.match(r"^goto -> (bb\d+)$", st)
            if m:
                nxt = m.group(1)
                break
            m = re.match(r"^switchInt\((.+)\) -> \[(.+)\]$", st)
            if m:
                c = operand(ctx, p, m.group(1))
                targets = split_args(m.group(2))
                others = []
                for t in targets:
                    k, dest = [x.strip() for x in t.split(":")]
                    if k == "otherwise":
                        q = p.fork()
                        for o in others:
                            q.assume.append("(not %s)" % o)
                        work.append((q, dest, seen))
                    else:
                        if c.is_bool:
                            cond = "(not %s)" % c.t if k == "0" else c.t
                        else:
                            cond = "(= %s %s)" % (c.t, k)
                        others.append(cond)
                        q = p.fork()
                        q.assume.append(cond)
                        work.append((q, dest, seen))
                nxt = "done"
                break
            m = re.match(r"^assert\((.+?), \"(.*?)\"(, .*)?\) -> \[success: (bb\d+), unwind.*\]$", st)
            if m:
                c = m.group(1).strip()
                neg = c.startswith("!")
                v = operand(ctx, p, c[1:] if neg else c)
                cond = "(not %s)" % v.t if neg else v.t
                p.oblig.append(("%s: %s" % (f.name.split("::")[-1], m.group(2)[:60]), list(p.assume), cond))
                p.assume.append(cond)
                nxt = m.group(4)
                break
            m = re.match(r"^drop\(.+\) -> \[return: (bb\d+), unwind.*\]$", st)
            if m:
                nxt = m.group(1)
                break
            m = re.match(r"^(_\d+|\(.+\)) = (.+?)\((.*)\) -> \[return: (bb\d+), unwind.*\]$", st)
            if m and not re.match(r"^(Add|Sub|Mul|Div|Rem|Eq|Ne|Lt|Le|Gt|Ge|Not|AddWithOverflow|SubWithOverflow|MulWithOverflow)$", m.group(2).strip()):
                dest, callee, a, ret_bb = m.group(1), m.group(2), m.group(3), m.group(4)
                argv = [operand(ctx, p, x) for x in split_args(a)]
                rets = call(ctx, p, callee, argv)
                first = True
                for (q, rv) in rets:
                    if q is not p:
                        # inlined callee path: keep caller's locals
                        q.env = dict(p.env)
                    q.env[dest] = rv
                    if q is p:
                        continue
                    work.append((q, ret_bb, seen))
                if any(q is p for q, _ in rets):
                    nxt = ret_bb
                else:
                    nxt = "done"
                break
            m = re.match(r"^(_\d+) = (.+)$", st)
            if m:
                p.env[m.group(1)] = rvalue(ctx, p, m.group(2))
                continue
            raise Unsupported("statement: " + st)
        if nxt is None:
            raise Unsupported("block without terminator " + bb)
        if nxt != "done":
            work.append((p, nxt, seen))
    return done
