"""Engine M: a small symbolic executor for loop-free rustc MIR (text form of
`-Zunpretty=mir`) of *generic* functions, producing SMT-LIB2 queries.

In generic MIR the associated constants `<T as FlatBase>::ALIGN`, `<T as FlatSized>::SIZE`
stay unevaluated; they become free integer variables, so one query covers every field type
at once (the quantifier over type definitions that Kani, which sees monomorphised code with
folded constants, cannot reach).

Encoding: mathematical integers. Every machine integer input is constrained to [0, 2^64);
`AddWithOverflow/SubWithOverflow/MulWithOverflow` + `assert(!overflow)` of the MIR become
proof obligations ("the exact result lies in [0, 2^64)") and, once discharged, the exact
value is the machine value. `Div/Rem` get fresh quotient/remainder variables with the
division lemma (bit-blasting 64-bit dividers does not finish). Functions with a CFG
back-edge are rejected. Callees whose MIR is in the dump are inlined; a fixed list of core
items is axiomatised (see AXIOMS); anything else is an uninterpreted function."""
import re

U64 = 2 ** 64


class Unsupported(Exception):
    pass


# ------------------------------------------------------------------ parsing

class Func:
    def __init__(self, name, params, blocks, is_const, header):
        self.name, self.params, self.blocks, self.is_const, self.header = name, params, blocks, is_const, header


def parse_mir(text):
    """Returns list of Func. blocks: {bbN: (statements[], terminator)}"""
    funcs = []
    lines = text.split("\n")
    i = 0
    while i < len(lines):
        ln = lines[i]
        if (ln.startswith("fn ") or ln.startswith("const ")) and ln.endswith("{"):
            kind = "fn" if ln.startswith("fn ") else "const"
            header = ln
            if kind == "fn":
                mm = re.match(r"^fn (.+?)\((.*)\) -> (.+) \{$", ln)
                if not mm:
                    i += 1
                    continue
                name = mm.group(1)
                params = re.findall(r"(_\d+): ", mm.group(2))
            else:
                mm = re.match(r"^const (.*::\w+(?:::\{constant#\d+\})?): ([^:]+) = \{$", ln)
                if not mm:
                    i += 1
                    continue
                name = mm.group(1)
                params = []
            i += 1
            blocks = {}
            cur = None
            depth = 1
            while i < len(lines) and depth > 0:
                l = lines[i].strip()
                if re.match(r"^bb\d+( \(cleanup\))?: \{$", l):
                    cur = re.match(r"^(bb\d+)", l).group(1)
                    blocks[cur] = {"stmts": [], "cleanup": "(cleanup)" in l}
                    depth += 1
                elif l == "}":
                    depth -= 1
                    if depth == 1:
                        cur = None
                elif l.startswith("scope ") and l.endswith("{"):
                    depth += 1
                elif cur is not None and l:
                    blocks[cur]["stmts"].append(l)
                i += 1
            funcs.append(Func(name, params, blocks, kind == "const", header))
        else:
            i += 1
    return funcs


# ------------------------------------------------------------------ values

class V:
    """symbolic value"""


class I(V):  # integer / bool term (SMT string)
    def __init__(self, t, is_bool=False):
        self.t, self.is_bool = t, is_bool


class Tup(V):
    def __init__(self, items):
        self.items = items


class Fat(V):  # wide pointer: (address, metadata)
    def __init__(self, addr, meta):
        self.addr, self.meta = addr, meta


class Opt(V):  # Option<usize>
    def __init__(self, some, val):
        self.some, self.val = some, val


class Opaque(V):
    def __init__(self, name):
        self.name = name


class Ctx:
    def __init__(self, funcs):
        self.funcs = funcs
        self.fresh = 0
        self.decls = []  # (name, sort)
        self.symbols = {}  # const path -> var name
        self.tymap = []  # stack of {callee type parameter: caller type}
        self.depth = 0

    def new(self, base, sort="Int"):
        self.fresh += 1
        n = "%s!%d" % (re.sub(r"[^A-Za-z0-9_.]", "_", base), self.fresh)
        self.decls.append((n, sort))
        return n

    def norm(self, path):
        """canonical spelling of an associated-constant path: module prefixes dropped
        (`flatty::traits::FlatBase` == `traits::FlatBase` == `FlatBase`), current
        type-parameter renaming applied (callee's `T` is the caller's `C`, ...)."""
        q = re.sub(r"\b(?:[a-z_][a-z0-9_]*::)+(?=[A-Z])", "", path)
        if self.tymap:
            m = self.tymap[-1]
            q = re.sub(r"<(\w+) as ", lambda mm: "<%s as " % m.get(mm.group(1), mm.group(1)), q)
        return q

    def sym(self, path):
        """free variable for an unevaluated associated constant"""
        path = self.norm(path)
        if path not in self.symbols:
            n = re.sub(r"[^A-Za-z0-9_.]", "_", path)
            self.symbols[path] = n
            self.decls.append((n, "Int"))
        return self.symbols[path]


class Path:
    def __init__(self):
        self.assume = []  # SMT bool terms
        self.oblig = []  # (description, [assumptions at that point], condition)
        self.calls = []  # (callee, [arg values])
        self.env = {}

    def fork(self):
        p = Path()
        p.assume = list(self.assume)
        p.oblig = list(self.oblig)
        p.calls = list(self.calls)
        p.env = dict(self.env)
        return p


def find_func(ctx, pattern, want_const=None):
    """pattern: regex on the function name, optionally followed by ' @@ ' and a regex on the
    whole header line (to select by signature rather than by source line numbers)."""
    hp = None
    if " @@ " in pattern:
        pattern, hp = pattern.split(" @@ ", 1)
    c = [f for f in ctx.funcs if re.search(pattern, f.name) and (want_const is None or f.is_const == want_const)
         and (hp is None or re.search(hp, f.header))]
    if not c:
        raise Unsupported("no MIR for " + pattern)
    return c[0]  # const fns appear twice (runtime + const-eval MIR): identical bodies


PRIM = {"u8": 1, "i8": 1, "u16": 2, "i16": 2, "u32": 4, "i32": 4, "u64": 8, "i64": 8, "usize": 8, "isize": 8, "u128": 16, "i128": 16, "()": 0}


def split_generics(s):
    """'FlatVec<C, L>' -> ('FlatVec', ['C', 'L'])"""
    m = re.match(r"^([\w:]+?)(?:::)?<(.*)>$", s.strip())
    if not m:
        return s.strip(), []
    return m.group(1), split_args(m.group(2))


def impl_span_of(ctx, tyname):
    """macro-generated impls are named by source span only; the `size(&Self)` method's
    signature ties the span to the type name."""
    for f in ctx.funcs:
        m = re.match(r"^fn (<impl at [^>]+>)::size\(_1: &%s<" % re.escape(tyname), f.header)
        if m:
            return m.group(1)
    return None


CONTAINER_ITEMS = {
    ("FlatVec", "DATA_OFFSET"): r"^vec::DataOffset::DATA_OFFSET$",
    ("FlatVec", "ALIGN"): r"^vec::<impl at containers/src/vec\.rs:\d+:1: \d+:\d+>::ALIGN$",
    ("FlatVec", "MIN_SIZE"): r"^vec::<impl at containers/src/vec\.rs:\d+:1: \d+:\d+>::MIN_SIZE$",
    ("FlatString", "DATA_OFFSET"): r"^string::DataOffset::DATA_OFFSET$",
    ("FlatString", "ALIGN"): r"^string::<impl at containers/src/string\.rs:\d+:1: \d+:\d+>::ALIGN$",
    ("FlatString", "MIN_SIZE"): r"^string::<impl at containers/src/string\.rs:\d+:1: \d+:\d+>::MIN_SIZE$",
    ("FlexVec", "ALIGN"): r"^flex::<impl at containers/src/flex\.rs:\d+:1: \d+:\d+>::ALIGN$",
    ("FlexVec", "MIN_SIZE"): r"^flex::<impl at containers/src/flex\.rs:\d+:1: \d+:\d+>::MIN_SIZE$",
    ("FlexVec", "OFFSET_SIZE"): r"^flex::<impl at containers/src/flex\.rs:\d+:1: \d+:\d+>::OFFSET_SIZE$",
}
CONTAINER_PARAMS = {"FlatVec": ["T", "L"], "FlatString": ["L"], "FlexVec": ["T", "L"]}


def exec_const_item(ctx, f, p, tymap=None):
    """value of a constant item; memoised per (item, type arguments): its obligations are
    generated once, later uses only re-assert the defining constraints."""
    cur0 = ctx.tymap[-1] if ctx.tymap else {}
    key = (f.name, tuple(sorted((k, cur0.get(v, v)) for k, v in (tymap or {}).items())), tuple(sorted(cur0.items())))
    cache = ctx.__dict__.setdefault("const_cache", {})
    if key in cache:
        ret, extra = cache[key]
        for a in extra:
            if a not in p.assume:
                p.assume.append(a)
        return ret
    n0 = len(p.assume)
    ret = _exec_const_item(ctx, f, p, tymap)
    cache[key] = (ret, list(p.assume[n0:]))
    return ret


def _exec_const_item(ctx, f, p, tymap=None):
    if tymap is not None:
        cur = ctx.tymap[-1] if ctx.tymap else {}
        ctx.tymap.append({k: cur.get(v, v) for k, v in tymap.items()})
    try:
        paths = execute(ctx, f, [], p)
    finally:
        if tymap is not None:
            ctx.tymap.pop()
    if len(paths) != 1:
        return merge_returns(paths, p)
    q, ret = paths[0]
    p.assume[:] = q.assume
    p.oblig[:] = q.oblig
    return ret


def const_value(ctx, path_expr, p):
    path_expr = path_expr.strip()
    m = re.match(r"^(-?\d+)_(usize|isize|u8|u16|u32|u64|i32|i64)$", path_expr)
    if m:
        return I(str(int(m.group(1))))
    if path_expr in ("true", "false"):
        return I(path_expr, True)
    if path_expr in ("core::num::<impl usize>::MAX", "usize::MAX"):
        return I(str(U64 - 1))
    if path_expr in ("isize::MIN", "core::num::<impl isize>::MIN"):
        return I(str(-(2 ** 63)))
    q = re.sub(r"\b(?:[a-z_][a-z0-9_]*::)+(?=[A-Z])", "", path_expr)
    # <TYPE as TRAIT>::NAME
    m = re.match(r"^<(.+) as (\w+)(?:<.*>)?>::(\w+)$", q)
    if m:
        ty, trait, name = m.group(1).strip(), m.group(2), m.group(3)
        if ty in PRIM and name in ("SIZE", "ALIGN", "MIN_SIZE"):
            return I(str(PRIM[ty]))
        base, args = split_generics(ty)
        if base in CONTAINER_PARAMS and (base, name) in CONTAINER_ITEMS:
            f = find_func(ctx, CONTAINER_ITEMS[(base, name)], want_const=True)
            return exec_const_item(ctx, f, p, dict(zip(CONTAINER_PARAMS[base], args)))
        span = impl_span_of(ctx, base) if args else None
        if span:
            f = find_func(ctx, "^" + re.escape(span) + "::" + name + "$", want_const=True)
            return exec_const_item(ctx, f, p)
        return I(ctx.sym(path_expr))
    # inherent constant of a macro-generated type: GS3::<A, B, C, L>::LAST_FIELD_OFFSET
    m = re.match(r"^(\w+)::<(.*)>::(\w+)$", q)
    if m:
        base, name = m.group(1), m.group(3)
        if base in CONTAINER_PARAMS and (base, name) in CONTAINER_ITEMS:
            f = find_func(ctx, CONTAINER_ITEMS[(base, name)], want_const=True)
            return exec_const_item(ctx, f, p, dict(zip(CONTAINER_PARAMS[base], split_args(m.group(2)))))
        span = impl_span_of(ctx, base)
        if span:
            f = find_func(ctx, "^" + re.escape(span) + "::" + name + "$", want_const=True)
            return exec_const_item(ctx, f, p)
    if path_expr.startswith("<") or "::" in path_expr:
        return I(ctx.sym(path_expr))
    raise Unsupported("const " + path_expr)


def align_of_type(ctx, ty, p):
    """alignment of a type appearing in a generated *AlignAs tuple struct (axioms: repr(C)
    struct = max of its fields; `<X as FlatUnsized>::AlignAs` has X's alignment)."""
    ty = re.sub(r"\b(?:[a-z_][a-z0-9_]*::)+(?=[A-Z<])", "", ty.strip())
    if ty in PRIM:
        return str(max(PRIM[ty], 1))
    m = re.match(r"^<(.+) as FlatUnsized>::AlignAs$", ty)
    if m:
        return const_value(ctx, "<%s as FlatBase>::ALIGN" % m.group(1), p).t
    base, args = split_generics(ty)
    if base in ("FlatVecAlignAs", "FlexVecAlignAs"):
        a = align_of_type(ctx, args[0] if base == "FlatVecAlignAs" else "<%s as FlatUnsized>::AlignAs" % args[0], p) if False else None
        first = args[0]
        ta = const_value(ctx, "<%s as FlatBase>::ALIGN" % first, p).t
        la = const_value(ctx, "<%s as FlatBase>::ALIGN" % args[1], p).t
        return "(ite (>= %s %s) %s %s)" % (ta, la, ta, la)
    if base.endswith("AlignAs"):
        return align_of_alignas(ctx, base, p)
    if not args and re.match(r"^[A-Z]\w*$", ty):
        return const_value(ctx, "<%s as FlatBase>::ALIGN" % ty, p).t
    raise Unsupported("align_of " + ty)


def align_of_alignas(ctx, name, p):
    for f in ctx.funcs:
        m = re.match(r"^fn %s\((.*)\) -> " % re.escape(name), f.header)
        if m:
            tys = [re.sub(r"^_\d+: ", "", x) for x in split_args(m.group(1))]
            term = None
            for t in tys:
                a = align_of_type(ctx, t, p)
                term = a if term is None else "(ite (>= %s %s) %s %s)" % (term, a, term, a)
            return term
    raise Unsupported("no constructor for " + name)


def merge_returns(paths, p):
    """ite over path conditions (paths differ only by appended assumptions)."""
    base = len(p.assume)
    term = None
    for q, ret in reversed(paths):
        cond = "(and true %s)" % " ".join(q.assume[base:]) if len(q.assume) > base else "true"
        if not isinstance(ret, I):
            raise Unsupported("merge of non-integer")
        term = ret.t if term is None else "(ite %s %s %s)" % (cond, ret.t, term)
        for o in q.oblig[len(p.oblig):]:
            p.oblig.append(o)
    return I(term)


def split_args(s):
    out, depth, cur = [], 0, ""
    for ch in s:
        if ch in "([{<":
            depth += 1
        elif ch in ")]}>":
            depth -= 1
        if ch == "," and depth == 0:
            out.append(cur.strip())
            cur = ""
        else:
            cur += ch
    if cur.strip():
        out.append(cur.strip())
    return out


def read_place(ctx, p, place):
    place = place.strip()
    m = re.match(r"^\((.+)\.(\d+): .+\)$", place)
    if m:
        base = read_place(ctx, p, m.group(1))
        k = int(m.group(2))
        if isinstance(base, Tup):
            return base.items[k]
        raise Unsupported("field of non-aggregate: " + place)
    m = re.match(r"^\(\*(.+)\)$", place)
    if m:
        return read_place(ctx, p, m.group(1))  # references are modelled as the value itself
    m = re.match(r"^(_\d+)\[(_\d+)\]$", place)
    if m:
        arr = read_place(ctx, p, m.group(1))
        idx = read_place(ctx, p, m.group(2))
        if isinstance(arr, Tup) and isinstance(idx, I) and re.match(r"^\d+$", idx.t):
            return arr.items[int(idx.t)]
        raise Unsupported("symbolic array index: " + place)
    if re.match(r"^_\d+$", place):
        if place not in p.env:
            raise Unsupported("read of unset local " + place)
        return p.env[place]
    raise Unsupported("place " + place)


def operand(ctx, p, s):
    s = s.strip()
    if s.startswith("copy ") or s.startswith("move "):
        return read_place(ctx, p, s[5:])
    if s.startswith("const "):
        return const_value(ctx, s[6:], p)
    return read_place(ctx, p, s)


def rvalue(ctx, p, s):
    s = s.strip()
    m = re.match(r"^(Add|Sub|Mul)WithOverflow\((.+)\)$", s)
    if m:
        a, b = [operand(ctx, p, x) for x in split_args(m.group(2))]
        op = {"Add": "+", "Sub": "-", "Mul": "*"}[m.group(1)]
        val = "(%s %s %s)" % (op, a.t, b.t)
        ovf = "(or (< %s 0) (>= %s %d))" % (val, val, U64)
        return Tup([I(val), I(ovf, True)])
    m = re.match(r"^(Add|Sub|Mul|Div|Rem|Eq|Ne|Lt|Le|Gt|Ge|BitAnd|BitOr)\((.+)\)$", s)
    if m:
        a, b = [operand(ctx, p, x) for x in split_args(m.group(2))]
        k = m.group(1)
        if k in ("Add", "Sub", "Mul"):
            # unchecked (wrapping in release): only met after an explicit check in these functions
            return I("(%s %s %s)" % ({"Add": "+", "Sub": "-", "Mul": "*"}[k], a.t, b.t))
        if k in ("Div", "Rem"):
            q = ctx.new("q")
            r = ctx.new("r")
            p.assume.append("(=> (> %s 0) (and (= %s (+ (* %s %s) %s)) (>= %s 0) (< %s %s) (>= %s 0)))" % (b.t, a.t, q, b.t, r, r, r, b.t, q))
            return I(q if k == "Div" else r)
        if k in ("Eq", "Ne", "Lt", "Le", "Gt", "Ge"):
            o = {"Eq": "=", "Ne": "distinct", "Lt": "<", "Le": "<=", "Gt": ">", "Ge": ">="}[k]
            return I("(%s %s %s)" % (o, a.t, b.t), True)
        raise Unsupported(k)
    m = re.match(r"^Not\((.+)\)$", s)
    if m:
        a = operand(ctx, p, m.group(1))
        return I("(not %s)" % a.t, True)
    m = re.match(r"^Neg\((.+)\)$", s)
    if m:
        a = operand(ctx, p, m.group(1))
        return I("(- %s)" % a.t)
    m = re.match(r"^\[(.*)\]$", s)
    if m:
        return Tup([operand(ctx, p, x) for x in split_args(m.group(1))])
    m = re.match(r"^(&raw (const|mut) |&mut |&)(.+)$", s)
    if m:
        return read_place(ctx, p, m.group(3))
    m = re.match(r"^(.+) as (.+) \((\w+)\)$", s)
    if m:
        v = operand(ctx, p, m.group(1))
        kind, ty = m.group(3), m.group(2)
        if kind == "PtrToPtr":
            if isinstance(v, Fat) and re.match(r"^\*(mut|const) (u8|T|\(\))$", ty.strip()):
                return I(v.addr)  # wide -> thin (pointer to a sized type)
            return v
        if kind == "IntToInt":
            return v  # only usize <-> isize of small values in these functions
        raise Unsupported("cast " + kind)
    m = re.match(r"^\((.*)\)$", s)
    if m and not s.startswith("(_") and not s.startswith("(*"):
        return Tup([operand(ctx, p, x) for x in split_args(m.group(1))])
    m = re.match(r"^[\w:<>, ]+ \{ (.*) \}$", s)
    if m:
        fields = split_args(m.group(1))
        return Tup([operand(ctx, p, f.split(": ", 1)[1]) for f in fields])
    return operand(ctx, p, s)


INLINE = {
    "ceil_mul": r"^ceil_mul$",
    "floor_mul": r"^floor_mul$",
    "max": r"^utils::max$",
    "min": r"^utils::min$",
}


def _callee_key(base):
    """last path segment(s) used to look a callee up: module prefixes are ignored"""
    return re.sub(r"^(?:[a-z_][a-z0-9_]*::)+", "", base)


AXIOM_NOTES = [
    "slice_ptr_len / NonNull::len: metadata of a wide pointer",
    "slice_from_raw_parts_mut(ptr, n): wide pointer (ptr, n)",
    "usize::checked_div(a, b) = if b == 0 None else Some(a / b); Option::unwrap_or",
    "PtrToPtr casts keep address and metadata; references are the referent",
    "Deref of FlatVec/FlatString is the identity on the wide pointer",
]


def call(ctx, p, callee, args):
    callee = callee.strip()
    base = re.sub(r"::<[^()]*>$", "", callee)
    key = _callee_key(base)
    if key in INLINE:
        f = find_func(ctx, INLINE[key])
        paths = execute(ctx, f, args, p)
        if len(paths) > 1 and all(isinstance(r, I) for _, r in paths):
            # a branching callee without side conditions (max / min): one value, the branch
            # conditions become an if-then-else, so that callers do not multiply into 2^k paths
            q = p.fork()
            v = merge_returns(paths, q)
            return [(q, v)]
        return paths
    if key in ("slice_ptr_len", "NonNull::<[u8]>::len", "NonNull::<[T]>::len") or re.match(r"^NonNull::<\[.*\]>::len$", key):
        a = args[0]
        if not isinstance(a, Fat):
            raise Unsupported("slice_ptr_len of thin pointer")
        return [(p, I(a.meta))]
    if re.match(r"^NonNull::<.*>::new_unchecked$", key):
        return [(p, args[0])]
    if key in ("slice_from_raw_parts_mut", "set_slice_ptr_len"):
        a = args[0]
        addr = a.addr if isinstance(a, Fat) else a.t
        return [(p, Fat(addr, args[1].t))]
    if key == "offset_slice_ptr_start":
        a, k = args
        if not isinstance(a, Fat):
            raise Unsupported("offset_slice_ptr_start of thin pointer")
        # (len as isize - count) as usize wraps silently: the result must not be negative
        newlen = "(- %s %s)" % (a.meta, k.t)
        p.oblig.append(("offset_slice_ptr_start: the remaining length (len - count) is not negative", list(p.assume), "(>= %s 0)" % newlen))
        p.assume.append("(>= %s 0)" % newlen)
        return [(p, Fat("(+ %s %s)" % (a.addr, k.t), newlen))]
    if re.search(r"::offset$", key) and len(args) == 2 and isinstance(args[0], I):
        return [(p, I("(+ %s %s)" % (args[0].t, args[1].t)))]
    if key == "align_of" or base.endswith("align_of"):
        m = re.search(r"align_of::<(.+)>$", callee)
        if not m:
            raise Unsupported("align_of without type")
        ty = m.group(1)
        b, _ = split_generics(re.sub(r"\b(?:[a-z_][a-z0-9_]*::)+(?=[A-Z<])", "", ty))
        return [(p, I(align_of_alignas(ctx, b, p) if b.endswith("AlignAs") else align_of_type(ctx, ty, p)))]
    if re.search(r"checked_div$", key):
        a, b = args
        q = ctx.new("q")
        r = ctx.new("r")
        p.assume.append("(=> (> %s 0) (and (= %s (+ (* %s %s) %s)) (>= %s 0) (< %s %s) (>= %s 0)))" % (b.t, a.t, q, b.t, r, r, r, b.t, q))
        return [(p, Opt("(distinct %s 0)" % b.t, q))]
    if re.search(r"Option::<usize>::unwrap_or$", key):
        o, d = args
        return [(p, I("(ite %s %s %s)" % (o.some, o.val, d.t)))]
    if re.search(r"as Deref>::deref$|as DerefMut>::deref_mut$", base):
        return [(p, args[0])]
    # <FlatVec<C, L> as FlatUnsized>::ptr_from_bytes: the container's own MIR with T := C
    m = re.match(r"^<(.+) as (?:\w+::)*FlatUnsized>::(ptr_from_bytes|ptr_to_bytes)$", base)
    if m:
        ty = re.sub(r"\b(?:[a-z_][a-z0-9_]*::)+(?=[A-Z])", "", m.group(1))
        b, targs = split_generics(ty)
        mod = {"FlatVec": "vec", "FlatString": "string", "FlexVec": "flex"}.get(b)
        if mod:
            f = find_func(ctx, r"^%s::<impl at containers/src/%s\.rs:\d+:1: \d+:\d+>::%s$" % (mod, mod, m.group(2)))
            cur = ctx.tymap[-1] if ctx.tymap else {}
            ctx.tymap.append({k: cur.get(v, v) for k, v in zip(CONTAINER_PARAMS[b], targs)})
            try:
                return execute(ctx, f, args, p)
            finally:
                ctx.tymap.pop()
    # uninterpreted: record the call, return a fresh value
    p.calls.append((callee, args))
    v = ctx.new("ret_" + re.sub(r"[^A-Za-z0-9]", "_", base)[-30:])
    return [(p, I(v))]


def execute(ctx, f, args, p0, depth=0):
    """Returns [(path, return value)]. Paths start as forks of p0 (assumptions are shared)."""
    if depth > 6:
        raise Unsupported("call depth")
    # reject loops: a block reachable from itself
    order = list(f.blocks)
    done = []
    work = []
    p = p0.fork()
    saved_env = p.env
    p.env = {}
    for name, val in zip(f.params, args):
        p.env[name] = val
    work.append((p, "bb0", ()))
    while work:
        p, bb, seen = work.pop()
        if bb in seen:
            raise Unsupported("loop in " + f.name)
        seen = seen + (bb,)
        blk = f.blocks[bb]
        if blk["cleanup"]:
            continue
        nxt = None
        for st in blk["stmts"]:
            st = st.rstrip(";")
            if st in ("ConstEvalCounter", "nop") or st.startswith("StorageLive") or st.startswith("StorageDead") or st.startswith("FakeRead") or st.startswith("PlaceMention"):
                continue
            if st == "return":
                done.append((p, p.env.get("_0", Opaque("unit"))))
                nxt = "done"
                break
            if st == "unreachable" or st.startswith("resume"):
                nxt = "done"
                break
            m = re.match(r"^goto -> (bb\d+)$", st)
            if m:
                nxt = m.group(1)
                break
            m = re.match(r"^switchInt\((.+)\) -> \[(.+)\]$", st)
            if m:
                c = operand(ctx, p, m.group(1))
                targets = split_args(m.group(2))
                others = []
                for t in targets:
                    k, dest = [x.strip() for x in t.split(":")]
                    if k == "otherwise":
                        q = p.fork()
                        for o in others:
                            q.assume.append("(not %s)" % o)
                        work.append((q, dest, seen))
                    else:
                        if c.is_bool:
                            cond = "(not %s)" % c.t if k == "0" else c.t
                        else:
                            cond = "(= %s %s)" % (c.t, k)
                        others.append(cond)
                        q = p.fork()
                        q.assume.append(cond)
                        work.append((q, dest, seen))
                nxt = "done"
                break
            m = re.match(r"^assert\((.+?), \"(.*?)\"(, .*)?\) -> \[success: (bb\d+), unwind.*\]$", st)
            if m:
                c = m.group(1).strip()
                neg = c.startswith("!")
                v = operand(ctx, p, c[1:] if neg else c)
                cond = "(not %s)" % v.t if neg else v.t
                p.oblig.append(("%s: %s" % (f.name.split("::")[-1], m.group(2)[:60]), list(p.assume), cond))
                p.assume.append(cond)
                nxt = m.group(4)
                break
            m = re.match(r"^drop\(.+\) -> \[return: (bb\d+), unwind.*\]$", st)
            if m:
                nxt = m.group(1)
                break
            m = re.match(r"^(_\d+|\(.+\)) = (.+?)\((.*)\) -> \[return: (bb\d+), unwind.*\]$", st)
            if m and not re.match(r"^(Add|Sub|Mul|Div|Rem|Eq|Ne|Lt|Le|Gt|Ge|Not|AddWithOverflow|SubWithOverflow|MulWithOverflow)$", m.group(2).strip()):
                dest, callee, a, ret_bb = m.group(1), m.group(2), m.group(3), m.group(4)
                argv = [operand(ctx, p, x) for x in split_args(a)]
                rets = call(ctx, p, callee, argv)
                first = True
                for (q, rv) in rets:
                    if q is not p:
                        # inlined callee path: keep caller's locals
                        q.env = dict(p.env)
                    q.env[dest] = rv
                    if q is p:
                        continue
                    work.append((q, ret_bb, seen))
                if any(q is p for q, _ in rets):
                    nxt = ret_bb
                else:
                    nxt = "done"
                break
            m = re.match(r"^(_\d+) = (.+)$", st)
            if m:
                p.env[m.group(1)] = rvalue(ctx, p, m.group(2))
                continue
            raise Unsupported("statement: " + st)
        if nxt is None:
            raise Unsupported("block without terminator " + bb)
        if nxt != "done":
            work.append((p, nxt, seen))
    return done
