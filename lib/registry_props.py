from registry import H, M, prop

