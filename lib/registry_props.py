"""Property -> harness lists. Time caps are ~3x the time measured on the unchanged tree
under 16-way parallel load; memory caps are address-space limits of the cbmc process."""
from registry import H, M, prop, NOT_CLAIMED

# shape -> (byte bound N of the read-only families, cost class)
SIZED = ["S_U16", "S_BOOL", "S_BOOL3", "S_SB", "S_SB2", "S_SS1", "S_SE1", "S_CE", "S_SE16", "S_PS", "S_PE"]
RO_BOUND = {
    "S_U16": 4, "S_BOOL": 3, "S_BOOL3": 5, "S_SB": 8, "S_SB2": 14, "S_SS1": 10, "S_SE1": 10, "S_CE": 3,
    "S_SE16": 6, "S_PS": 9, "S_PE": 10, "V_U8": 8, "V_U8L32": 10, "V_U16": 10, "V_BOOL": 8, "V_SB": 14,
    "V_A3": 12, "V_P": 10, "STR8": 5, "STR16": 6, "STRP": 6, "X_U8": 6, "X_B": 6, "X_U16": 8, "X_V": 6,
    "X_V16": 8, "X_S": 5, "X_P": 8, "U_S1": 12, "U_S2": 14, "U_S3": 6, "U_S4": 7, "U_S5": 12, "U_S6": 12, "X_V8L16": 8, "X_U8L16": 8, "X_U8P": 8, "U_E5": 18, "U_E6": 8, "U_PS": 10,
    "U_E1": 16, "U_E2": 8, "U_E3": 12, "U_E4": 14, "U_PE": 10,
}
SHAPE_DOC = {
    "S_U16": "u16", "S_BOOL": "Bool", "S_BOOL3": "[Bool;3]", "S_SB": "struct{Bool,u16,Bool}", "S_SB2": "[struct{Bool,u16,Bool};2]",
    "S_SS1": "struct{u8,u16,u32}", "S_SE1": "enum(u8){A,B(u16,u8),C{Bool,u16},D(u32)}", "S_CE": "C-like enum", "S_SE16": "enum(tag u16){A,B(Bool)}",
    "S_PS": "portable struct{u8,le::U16,be::U32}", "S_PE": "portable enum{A,B(le::U16,Bool),C(PS)}",
    "V_U8": "FlatVec<u8,u8>", "V_U8L32": "FlatVec<u8,u32>", "V_U16": "FlatVec<u16,u8>", "V_BOOL": "FlatVec<Bool,u8>",
    "V_SB": "FlatVec<struct{Bool,u16,Bool},u8>", "V_A3": "FlatVec<[u8;3],u16>", "V_P": "FlatVec<le::U16,le::U16>",
    "STR8": "FlatString<u8>", "STR16": "FlatString<u16>", "STRP": "FlatString<le::U16>",
    "X_U8": "FlexVec<u8,u8>", "X_B": "FlexVec<Bool,u8>", "X_U16": "FlexVec<u16,u16>", "X_V": "FlexVec<FlatVec<u8,u8>,u8>",
    "X_V16": "FlexVec<FlatVec<u8,u16>,u16>", "X_S": "FlexVec<FlatString<u8>,u8>", "X_P": "FlexVec<le::U16,le::U16>",
    "U_S1": "unsized struct{u8,u16,FlatVec<u8,u8>}", "U_S2": "unsized struct{u32,FlatVec<u8,u8>}", "U_S3": "unsized struct{Bool,FlatString<u8>}",
    "U_S4": "unsized struct{u8,FlexVec<u8,u8>}", "U_S6": "unsized struct{u8,[u8;2],u16,FlatVec<u8,u8>} (field with size > alignment at an odd offset)",
    "X_V8L16": "FlexVec<FlatVec<u8,u8>,u16> (offset type more aligned than the items)",
    "X_U8L16": "FlexVec<u8,u16> (offset type more aligned than the sized items)",
    "X_U8P": "FlexVec<u8,le::U16> (portable two-byte offset type, one-byte items)",
    "U_E5": "unsized enum{A,B(u8,u32,u8)} (three-field variant with inner padding)",
    "U_E6": "unsized enum{A,N(unsized enum{A,B(Bool),C(FlatVec<u8,u8>)})} (enum nested in enum)", "U_S5": "unsized struct{u16,FlatVec<u16,u8>}", "U_PS": "portable unsized struct{le::U16,FlatVec<le::U16,le::U16>}",
    "U_E1": "unsized enum{A,B(u8,u16),C{u32,FlatVec<u8,u16>}} (the test suite's)", "U_E2": "unsized enum{A,B(Bool),C(FlatVec<u8,u8>)}",
    "U_E3": "unsized enum(tag u16){A,B(Bool,u16),C{u8,FlatVec<u8,u8>}}", "U_E4": "unsized enum{A,S(unsized struct)}",
    "U_PE": "portable unsized enum{A,B(le::U16),C(portable unsized struct)}",
}
# shapes whose harnesses cost <= ~150 s: quick tier
RO_QUICK = SIZED + ["V_U8", "V_U8L32", "V_U16", "V_BOOL", "V_P", "V_A3", "STR8", "U_S1", "U_S2", "U_S5", "U_S6", "U_PS",
                    "U_E1", "U_E2", "U_E3", "U_E4", "U_E5", "U_E6", "U_PE", "X_U8", "X_U16", "X_U8L16", "X_U8P"]
# X_V16, X_S, X_V8L16 exist in the crate but exhaust memory (10-16 GB) at the bounds where they say something: not registered
RO_THOROUGH = ["V_SB", "STR16", "STRP", "X_B", "X_V", "X_P", "U_S3", "U_S4"]
STRINGY = {"STR8", "STR16", "STRP", "U_S3", "X_S"}
CONSTRAINED = {"U_E6", "U_E5", "S_BOOL", "S_BOOL3", "S_SB", "S_SB2", "S_SE1", "S_CE", "S_SE16", "S_PE", "V_BOOL", "V_SB", "STR8", "STR16",
               "STRP", "X_B", "X_U16", "X_V16", "X_S", "U_S3", "U_E1", "U_E2", "U_E3", "U_E4", "U_PE"}
SLOW = {"X_U8": 900, "X_U16": 1100, "X_U8L16": 1100, "X_U8P": 1100, "X_B": 1100, "X_V": 2700, "X_P": 1200, "U_S4": 900, "STR16": 900, "STRP": 900,
        "U_S3": 900, "V_SB": 900, "X_V16": 3000, "X_S": 3000, "X_V8L16": 3000, "STR8": 600, "V_A3": 600}
BIGMEM = {"X_V": 14, "X_V16": 16, "X_S": 16, "X_V8L16": 16, "V_SB": 12, "X_P": 10, "X_U16": 10, "X_U8L16": 10, "X_U8P": 10, "X_B": 10}


def ro(family, what, shapes_quick=None, shapes_thorough=None, only=None):
    out = []
    for tier, shapes in (("quick", shapes_quick if shapes_quick is not None else RO_QUICK),
                         ("thorough", shapes_thorough if shapes_thorough is not None else RO_THOROUGH)):
        for sh in shapes:
            if only is not None and sh not in only:
                continue
            if family == "total" and sh == "V_SB":
                continue  # the exact-size-object form exhausts 12 GB for this 14-byte shape
            name = "ro::%s::%s" % (sh, family)
            stub = False
            if family == "total" and sh in STRINGY:
                name = "ro::%s_s::total" % sh
                stub = True
            out.append(H(name, SLOW.get(sh, 400), BIGMEM.get(sh, 8),
                         "all byte strings of length <= %d%s of %s" % (
                             RO_BOUND[sh] + (1 if stub else 0), ", every address residue modulo the alignment" if family in ("total", "accept") else "", SHAPE_DOC[sh]),
                         what, tier=tier, stubbing=stub,
                         assumes=(["core::str::from_utf8 replaced by the reference UTF-8 automaton (Kani stub); utf8::ref_vs_core ties the automaton to core's validator"] if stub else [])))
    return out


OUT_RO = ["slices longer than the per-shape byte bound (3..16 bytes)", "type shapes outside the catalogue of harness/src/shapes.rs (39 shapes)",
          "element types usize/isize/u128/f32 beyond the listed representatives"]

prop("C01", "validation is total",
     "For each catalogue shape, validate/from_bytes/from_mut_bytes are run on an exact-size heap object holding an arbitrary byte string of every length up to the bound at every address residue; CBMC decides every panic, overflow, division, pointer and unwinding check of the compiled library code.",
     OUT_RO,
     ro("total", "validate/from_bytes/from_mut_bytes return Ok or Err, agree with each other, no panic, no access outside the slice")
     + [H("ro::zst::total", 200, 6, "all slices <= 4 bytes, stored count <= 5", "FlatVec<(), u8>: zero-sized items do not divide by zero")]
     + [H("utf8::ref_vs_core_4", 300, 6, "all byte strings <= 4 bytes", "reference UTF-8 automaton == core::str::from_utf8 (validity and valid_up_to)"),
        H("utf8::ref_vs_core_6", 600, 8, "all byte strings <= 6 bytes", "reference UTF-8 automaton == core::str::from_utf8", tier="thorough")])

prop("C02", "from_bytes accepts exactly well-formed encodings, consistent view",
     "from_bytes(s).is_ok() is compared with an independent reference decoder of the documented format for every byte string up to the bound at every address residue; on success the mapped value's accessors, len<=capacity, as_bytes re-validation and content are compared with the reference decoding.",
     OUT_RO,
     ro("accept", "from_bytes Ok <=> reference well-formed; accessors inside the slice; len<=capacity; own bytes validate; content == reference decoding")
     + ro("wrap", "FlatWrap::from_wrapped_bytes agrees with from_bytes", shapes_quick=["V_U8", "U_S1", "U_E2", "S_SE1"], shapes_thorough=["U_E1", "X_U8", "STR8"]))

prop("C05", "size() is the exact extent",
     "From every well-formed image up to the bound: size() equals the reference extent, is <= the mapped length, and re-mapping the first size() bytes yields the same content and size(). After mutations: the step harnesses of C11/C12 assert the same on their post-states.",
     OUT_RO + ["sequences of mutations are covered one step at a time from an arbitrary valid state (C11, C12, C18 harnesses)"],
     ro("size", "size() == reference extent <= n; from_bytes(&s[..size()]) gives the same content and size()")
     + [M("FlatVec_size")])

prop("C06", "framing contract",
     "For every tight valid message m (reference extent == length) up to the bound: every proper prefix is rejected as InsufficientSize or, only when nothing but padding is missing, accepted with the same content; m followed by arbitrary bytes validates with the same content and size().",
     OUT_RO,
     ro("frame", "prefix => InsufficientSize or same content (padding only); message ++ arbitrary suffix => same content and size()"))

prop("C19", "content errors are reported at the byte that is wrong",
     "For every byte string up to the bound: if validate reports InvalidData/InvalidEnumTag the position is in the reference decoder's set of offending bytes; a complete-but-malformed image is never reported as InsufficientSize.",
     OUT_RO + ["images with more than one kind of defect: any offending byte is accepted"],
     ro("errpos", "error position names an offending byte (Bool, tag, UTF-8) at any nesting depth", only=CONSTRAINED,
        shapes_quick=RO_QUICK + ["X_B"], shapes_thorough=[x for x in RO_THOROUGH if x != "X_B"])
     + [H("ro::V_SB_q::errpos", 600, 8, "all byte strings of length <= 8 of " + SHAPE_DOC["V_SB"] + " (one element; data offset 2 > length size 1)",
          "error position inside a FlatVec element behind padding names an offending byte")])

# ---------------------------------------------------------------- constructing families
EM_COST = {"S_U16": 60, "S_SB": 60, "S_SS1": 60, "S_SE1": 90, "S_CE": 60, "S_SE16": 60, "S_PS": 60, "S_PE": 90,
           "V_U8": 300, "V_U8L32": 400, "V_U16": 400, "V_SB": 900, "V_A3": 600, "V_P": 400, "STR8": 600, "STR16": 900,
           "STRP": 900, "X_U8": 900, "X_U16": 1500, "X_V": 2400, "U_S1": 600, "U_S2": 600, "U_S6": 900, "U_S3": 900, "U_S4": 1200,
           "U_PS": 600, "U_E1": 900, "U_E5": 400, "U_E6": 600, "X_U8P": 1200, "U_E2": 400, "U_E3": 600, "U_E4": 800, "U_PE": 800}
EM_QUICK = ["S_U16", "S_SB", "S_SS1", "S_SE1", "S_CE", "S_SE16", "S_PS", "S_PE", "V_U8", "V_U8L32", "V_U16", "V_A3", "V_P",
            "STR8", "U_S1", "U_S2", "U_S6", "U_PS", "U_E1", "U_E2", "U_E3", "U_E4", "U_E5", "U_E6", "U_PE", "X_U8", "X_U8P"]
EM_THOROUGH = ["V_SB", "STR16", "STRP", "X_U16", "X_V", "U_S3", "U_S4"]
EM_BOUND = {"S_U16": 5, "S_SB": 9, "S_SS1": 12, "S_SE1": 12, "S_CE": 3, "S_SE16": 7, "S_PS": 9, "S_PE": 10, "V_U8": 6,
            "V_U8L32": 12, "V_U16": 10, "V_SB": 16, "V_A3": 11, "V_P": 10, "STR8": 6, "STR16": 8, "STRP": 7, "X_U8": 8,
            "X_U16": 14, "X_V": 10, "U_S1": 11, "U_S2": 13, "U_S6": 13, "U_S3": 7, "U_S4": 9, "U_PS": 12, "U_E1": 20, "U_E5": 20, "U_E6": 8, "X_U8P": 10, "U_E2": 7,
            "U_E3": 10, "U_E4": 13, "U_PE": 13}


def em(family, what, quick=None, thorough=None):
    out = []
    for tier, shapes in (("quick", EM_QUICK if quick is None else quick), ("thorough", EM_THOROUGH if thorough is None else thorough)):
        for sh in shapes:
            if family == "default" and sh == "X_V":
                continue  # exhausts 10 GB; the default of a FlexVec is covered by X_U8, X_U16, X_U8P, U_S4
            out.append(H("em::%s::%s" % (sh, family), EM_COST[sh] if family == "emplace" else max(300, EM_COST[sh] // 2), 18 if sh == "X_V" else 10 if sh.startswith("X_") or sh in ("V_SB", "U_E1") else 8,
                         "every value (all variants, container fill 0..3 items, scalars full range), every buffer length 0..%d, every address residue, arbitrary prior buffer contents; %s" % (EM_BOUND[sh], SHAPE_DOC[sh]),
                         what, tier=tier))
    return out


ASG = {"V_U8_a": ("V_U8", 5, 400), "V_A3_a": ("V_A3", 9, 600), "STR8_a": ("STR8", 5, 900), "X_U8_a": ("X_U8", 6, 1500),
       "U_S1_a": ("U_S1", 10, 900), "U_S3_a": ("U_S3", 6, 1500), "U_E1_a": ("U_E1", 16, 1500),
       "U_E5_a": ("U_E5", 16, 900), "U_E6_a": ("U_E6", 7, 900), "U_E2_a": ("U_E2", 6, 600), "U_E3_a": ("U_E3", 10, 900), "U_E4_a": ("U_E4", 12, 1200), "U_PE_a": ("U_PE", 9, 900)}
ASG_QUICK = ["V_U8_a", "V_A3_a", "U_S1_a", "U_E1_a", "U_E2_a", "U_E3_a", "U_E5_a", "U_E6_a", "U_PE_a"]


def asg(what, exclude=()):
    out = []
    for m, (sh, n, t) in ASG.items():
        if m in exclude:
            continue
        out.append(H("em::%s::assign" % m, t, 12, "every valid target image <= %d bytes x every replacement value (all variants, fill 0..3); %s" % (n, SHAPE_DOC[sh]),
                     what, tier="quick" if m in ASG_QUICK else "thorough"))
    return out


DS = ["S_U16", "S_SB", "S_SS1", "S_SE1", "S_CE", "S_SE16", "S_PS", "S_PE"]
OUT_EM = ["container contents longer than 3 items / strings longer than 3 bytes", "buffers longer than the per-shape bound",
          "emplacers that panic by contract (NeverEmplacer)", "the flex_vec! macro (names a non-existent flex::FromIter, cannot be expanded)"]

prop("C03", "emplace then read back; bytes validate; image byte-exact",
     "For every abstract value and every buffer (length, residue, garbage) up to the bound new_in_place is run through the real emplacers (literals, generated *Init types, flat_vec!, vec::FromIterator, string::FromStr, flex::FromIterator, nested); on success the accessors, validate, size() and the reference decoding of the resulting bytes (documented offsets and byte order) must equal the specified content.",
     OUT_EM,
     em("emplace", "new_in_place: reads back the specified content; bytes validate; image == documented encoding; size() == extent"))

prop("C15", "emplacement into any buffer: right error or success",
     "Same harnesses as C03: for every buffer length 0..bound and every address residue the result must be BadAlign (misaligned), InsufficientSize (aligned but smaller than the reference need) or Ok (then C03's post-conditions); no panic. default_in_place and FlatWrap::default_in_place are covered by the default family.",
     OUT_EM,
     em("emplace", "misaligned => BadAlign; too small => InsufficientSize; otherwise Ok; never a panic")
     + em("default", "default_in_place: too small => InsufficientSize; otherwise Ok", quick=["V_U8", "U_S1", "U_E1", "X_U8", "S_SE1"], thorough=["STR8", "U_E3", "U_S4"])
     + [M("SingleType_min_size"), M("TwoOrMore_min_size"), M("TwoOrMore_align")])

prop("C20", "default_in_place produces the documented default state",
     "For every buffer length up to the bound and arbitrary prior contents default_in_place yields the documented default (reference decoding of the bytes and accessor view), with minimal size(), independent of the prior contents (the post-condition is a constant); for sized shapes it equals Default::default() emplaced as a literal; FlatWrap::default_in_place agrees.",
     ["buffers longer than the per-shape bound", "type definitions outside the catalogue"],
     em("default", "default_in_place == documented default; validates; minimal size(); prior contents irrelevant")
     + [H("em::%s_d::default_sized" % sh, 200, 6, "arbitrary prior contents; " + SHAPE_DOC[sh], "default_in_place == Default::default() for the sized shape") for sh in DS])

prop("C18", "a failed assign_in_place leaves a valid value",
     "From every valid target image up to the bound and every replacement value: if assign_in_place fails the bytes still validate, the value can be observed, measured and assigned again without panic, and when the variant's fixed part does not fit (the size check) the decoded content is unchanged; no byte outside the target's slice changes.",
     ["targets longer than the per-shape bound", "replacement contents longer than 3 items",
      "'unchanged' is required only when the refusal comes from the type's own size check; a nested emplacer that fails after partial construction (e.g. FromIterator running out of capacity) must leave a valid value, not the old one"],
     asg("assign_in_place Err => still valid, inspectable, re-assignable; unchanged if the variant does not fit"))

# ---------------------------------------------------------------- portable scalars
INTS = ["le_u16", "le_u32", "le_u64", "le_i16", "le_i32", "le_i64", "be_u16", "be_u32", "be_u64", "be_i16", "be_i32", "be_i64"]
prop("C16", "portable scalars",
     "For all 12 portable integers, 4 floats and Bool, at full width (every value / every bit pattern): size, alignment 1, stored byte sequence == to_{le,be}_bytes, lossless round trip (floats by to_bits, NaN payloads included), equality == byte equality, Ord/PartialOrd, zero/one/min/max, to_u64/to_i64/to_usize, from_u64/from_i64/from_usize, NumCast, add/sub/neg/abs/signum at full width; mul/div/rem with operands below 256 x 128.",
     ["mul/div/rem with operands |x| >= 256 or |y| >= 128 in the quick tier, |x| >= 4096 or |y| >= 256 in the thorough tier (full-width multipliers/dividers do not finish under bit-blasting; the operator bodies are one macro for all types)",
      "overflowing operands (the native operator's own panic)", "from_str_radix, Display/Debug, serde", "f64 arithmetic; float mul/div/rem"],
     [H("port::%s::%s" % (t, f), 300, 6, "every value of the native type" if f != "muldiv" else "operands |x| < 256, |y| < 128", "portable %s vs native" % t)
      for t in INTS for f in ("repr", "addsub", "muldiv")]
     + [H("port::%s::muldiv_wide" % t, 900, 6, "operands |x| < 4096, |y| < 256", "portable %s mul/div/rem vs native, wider operands" % t, tier="thorough") for t in INTS]
     + [H("port::%s::repr" % t, 300, 6, "every bit pattern; every u64 / i64 / usize for the integer conversions", "portable float vs native") for t in ("le_f32", "le_f64", "be_f32", "be_f64")]
     + [H("port::f32_arith::le_addsub", 300, 6, "every pair of f32 bit patterns", "Add/Sub/AddAssign bit-exact"),
        H("port::f32_arith::be_addsub", 300, 6, "every pair of f32 bit patterns", "Add/Sub bit-exact"),
        H("port::bool_::repr", 120, 4, "all 256 bytes, all bool pairs", "Bool validation, representation, operators")])

# ---------------------------------------------------------------- IO (one step from an arbitrary state)
IO_B = {"V_U8": ("FlatVec<u8,u8>", 6, 3, 1200), "U_E2": ("unsized enum{A,B(Bool),C(FlatVec<u8,u8>)}", 6, 3, 1200),
        "SS2": ("sized struct{u16,u8} (align 2, padding)", 6, 2, 600), "U_S1": ("unsized struct{u8,u16,FlatVec<u8,u8>} (align 2, padded)", 8, 4, 3600),
        "X_U8": ("FlexVec<u8,u8>", 5, 2, 5400), "V_U8L32": ("FlatVec<u8,u32> (align 4)", 8, 4, 3600)}
IO_A = {"V_U8": ("FlatVec<u8,u8>", 5, 2, 3, 3000), "U_E2": ("unsized enum{A,B(Bool),C(FlatVec<u8,u8>)}", 5, 2, 3, 1800),
        "SS2": ("sized struct{u16,u8}", 6, 2, 3, 2400), "U_S1": ("unsized struct{u8,u16,FlatVec<u8,u8>}", 8, 2, 2, 3600),
        "V_U8_q": ("FlatVec<u8,u8>", 4, 2, 1, 1500), "SS2_q": ("sized struct{u16,u8}", 6, 2, 1, 1500),
        "U_E2_q": ("unsized enum{A,B(Bool),C(FlatVec<u8,u8>)}", 4, 2, 1, 1500),
        "V_U8_m": ("FlatVec<u8,u8>", 5, 2, 2, 3000), "U_E2_m": ("unsized enum{A,B(Bool),C(FlatVec<u8,u8>)}", 5, 2, 2, 3000)}
IO_AQUICK = ["V_U8_q", "SS2_q"]
IO_QUICK = ["V_U8", "SS2"]
IO_ASSUME = ["the receiver's pre-state is constructed through the `verif` hooks of flatty-io (window, contents); the window invariant (start multiple of ALIGN, start <= end <= capacity, empty window == 0..0) is assumed for the pre-state and re-asserted on the post-state",
             "pipes are solver-driven models: every read/write chunk size, failure and Pending placement is symbolic (harness/src/pipes.rs); io::Error values are mem::forget-ed (their drop glue is not the subject)",
             "sequences of recv/send calls are covered by induction over calls: each step starts from an arbitrary state satisfying the invariant"]


def io_b(fam, what, quick=IO_QUICK, tiers_all=None):
    out = []
    for m, (doc, cap, r, t) in IO_B.items():
        tcap = t if fam.startswith("recv") else max(300, t // 6)
        out.append(H("io_blk::%s::%s" % (m, fam), tcap, 14, "buffer capacity %d, arbitrary window and contents, %d further stream bytes, every chunking; message type %s" % (cap, r, doc),
                     what, tier="quick" if m in quick else "thorough"))
    return out


# async recv-side harnesses of these modules (3 Pending on the enum, the 8-byte padded struct) ran past 1800 s / 3600 s
# in the thorough sweep; they stay in the crate but are not registered: the 2-Pending forms (`*_m`) and blocking U_S1 cover the shapes
IO_A_RECV_UNFINISHED = ("U_E2", "U_S1")


def io_a(fam, what, quick=IO_AQUICK):
    out = []
    for m, (doc, cap, r, pb, t) in IO_A.items():
        if fam.startswith("recv") and m in IO_A_RECV_UNFINISHED:
            continue
        tcap = t if fam.startswith("recv") else max(300, t // 3)
        out.append(H("io_async::%s::%s" % (m, fam), tcap, 24 if fam.startswith("recv") else 14, "buffer capacity %d, %d further stream bytes, every chunking, up to %d Pending results anywhere (poll_read/poll_write/poll_flush); message type %s" % (cap, r, pb, doc),
                     what, tier="quick" if m in quick else "thorough"))
    return out


OUT_IO = ["buffer capacities above 8 bytes and more than 4 further stream bytes per step", "real OS threads / executors: interleavings are reduced to chunkings and Pending scripts on each side",
          "waker registration (the library registers none itself), cancellation of a future mid-way", "message types beyond the listed ones"]

prop("C07", "blocking IO delivers the sent sequence under every chunking",
     "One recv() from an arbitrary receiver state in front of an arbitrary well-formed stream delivered in every chunking, and one send() of an arbitrary valid image under every write chunking, are compared with the reference framing of the stream: delivered message == first message, consumed == its size(), buffered ++ unread == rest of the stream in order, Closed only at end of stream, no panic. Induction over calls gives whole sequences.",
     OUT_IO,
     io_b("recv", "recv step: delivers the first message of the stream, consumes exactly it (or nothing when the guard is retained), keeps the rest in order; Closed only at end of stream")
     + io_b("send", "send step: exactly size() bytes of the image reach the sink in order; buffer released")
     + [H("io_blk::ctors::%s" % sh, 200, 6, "max_msg_len 0..12; message type %s" % sh, "io(pipe, max_msg_len): capacity 2*max(max_msg_len, MIN_SIZE), buffer aligned to the message type, for Receiver/Sender/AsyncReceiver/AsyncSender") for sh in ("U_S1", "V_U8L32", "V_U8")]
     + [H("io_buf::%s::read_step" % m, 300, 6, "buffer capacity %d (alignment %d), arbitrary window and contents, <= 4 pipe bytes, any chunk, read may fail" % (c, a),
          "ReadBuffer::read from any buffer state: appends in order, advances by what was read, compacts without reordering, OutOfMemory iff full") for m, c, a in (("a1", 8, 1), ("a4", 12, 4))]
     + [H("io_blk::emplaced::send_emplaced", 900, 10, "FlatVec<u8,u8> of 0..2 items or the default, 5-byte buffer with arbitrary stale contents, every write chunking", "alloc -> new_in_place / default_in_place -> send delivers exactly the emplaced message")],
     IO_ASSUME)

prop("C08", "async IO delivers the same sequence under every chunking and poll schedule",
     "The real recv()/send() futures are polled by hand over pipes that answer Pending or Ready(k) symbolically; same post-conditions as C07 plus: the future is Pending exactly when a pipe call of that poll was Pending (no spurious Pending, completes as soon as the pipe made progress), the sink always holds a prefix of the image (no byte twice or skipped across Pending), and a send completes only after poll_flush returned Ready with all bytes handed over.",
     OUT_IO + ["more than 3 Pending results per step"],
     io_a("recv", "async recv step under every Pending placement") + io_a("send", "async send step: prefix-only sink, flush before completion, no spurious Pending")
     + [H("io_buf::%s::poll_read_step" % m, 300, 6, "buffer capacity %d (alignment %d), arbitrary window and contents, <= 4 pipe bytes, any chunk, Pending or failure possible" % (c, a),
          "AsyncReadBuffer::poll_read from any buffer state: Pending consumes nothing, Ready(n) advances by exactly n, order preserved") for m, c, a in (("a1", 8, 1), ("a4", 12, 4))],
     IO_ASSUME)

prop("C09", "IO faults surface as errors",
     "The step harnesses with faults enabled: each read may fail with one of four io::ErrorKinds, each write may fail or accept 0 bytes. Asserted: no pipe call follows a failed one within a send/recv (bounded calls, no retry loop), the sink holds a proper prefix of the image, poisoned <=> a partial message is in the stream, a failed read leaves buffered ++ unread == stream (nothing lost or duplicated, so a retried recv is again an instance of the step).",
     OUT_IO + ["io::ErrorKind values other than Other, Interrupted, WouldBlock, BrokenPipe"],
     io_b("recv_faults", "recv step with failing reads") + io_b("send_faults", "send step with failing / zero-length writes")
     + io_a("recv_faults", "async recv step with failing reads", quick=["V_U8_q"]) + io_a("send_faults", "async send step with failing / zero-length writes", quick=["V_U8_q"])
     + [H("io_buf::%s::read_step" % m, 300, 6, "buffer capacity %d (alignment %d), arbitrary window and contents, <= 4 pipe bytes, any chunk, read may fail" % (c, a),
          "ReadBuffer::read from any buffer state: appends in order, advances by what was read, compacts without reordering, OutOfMemory iff full") for m, c, a in (("a1", 8, 1), ("a4", 12, 4))]
     + [H("io_buf::%s::poll_read_step" % m, 300, 6, "buffer capacity %d (alignment %d), arbitrary window and contents, <= 4 pipe bytes, any chunk, Pending or failure possible" % (c, a),
          "AsyncReadBuffer::poll_read from any buffer state: Pending consumes nothing, Ready(n) advances by exactly n, order preserved") for m, c, a in (("a1", 8, 1), ("a4", 12, 4))],
     IO_ASSUME)

prop("C10", "receiver fed arbitrary bytes",
     "The recv step harness without any assumption on the stream: arbitrary buffer contents and arbitrary further bytes in every chunking. Asserted: terminates with message / Parse / Read(OutOfMemory) / Closed, no panic, bounded reads; a delivered message is the reference decoding of the bytes received so far and its size() <= bytes received; window stays inside the buffer; complete-but-malformed content => Parse.",
     OUT_IO,
     io_b("recv_hostile", "recv step on arbitrary bytes", quick=["V_U8", "U_E2"]) + io_a("recv_hostile", "async recv step on arbitrary bytes", quick=["U_E2_q"])
     + ro("accept", "recv hands out from_bytes_unchecked(buffer) after validate(buffer) succeeded: for message types more aligned than their tail, validate Ok => the view is a valid value inside the received bytes", shapes_quick=["U_S1", "U_S2", "U_E1"], shapes_thorough=["U_E3", "U_E4"])
     + ro("size", "the guard's drop skips size() bytes: size() <= bytes received, for padded message types", shapes_quick=["U_S2", "U_E1", "V_U8L32"], shapes_thorough=["U_S1", "V_A3"])
     + ro("total", "recv re-validates the buffer after every read: validate of a FlexVec message never panics on a truncated or hostile offset chain", shapes_quick=["X_U8"], shapes_thorough=["X_U16", "X_B"]),
     IO_ASSUME)

# ---------------------------------------------------------------- histories by one step
VSTEP = {"V_U8_st": ("FlatVec<u8,u8>", 7, 900), "V_U16_st": ("FlatVec<u16,u8>", 9, 1200), "V_U8L32_st": ("FlatVec<u8,u32>", 10, 1200),
         "V_A3_st": ("FlatVec<[u8;3],u16>", 10, 1800), "V_P_st": ("FlatVec<le::U16,le::U16>", 8, 1200)}
# (FlexVec<u16,u16> / FlexVec<le::U16,le::U16> step harnesses exist in the crate but are not registered: at the 6 bytes
# that still finish, a second 4-byte item never fits, so the interesting cases are unreachable)
XSTEP = {"X_U8_st4": ("FlexVec<u8,u8>", 4, 800), "X_U8_st": ("FlexVec<u8,u8>", 5, 2700), "X_U8_st6": ("FlexVec<u8,u8>", 6, 3600)}
XOPS = ["push", "push_default", "pop", "truncate", "clear", "edit", "push_failing"]
XVOPS = ["push", "pop", "truncate", "edit"]
STEP_ASSUME = ["a history is covered by one step from an arbitrary valid image (every validating image is a reachable state and every reachable state must validate, which each step re-asserts); the composition over steps is a paper argument"]


def vsteps(what, quick=("V_U8_st", "V_U16_st", "V_P_st", "V_U8L32_st")):
    return [H("step::%s::vec_step" % m, t, 12, "every valid image <= %d bytes x every operation (push, pop, push_slice<=3, truncate, clear, remove, swap_remove, resize, index write, extend_until_full) with arbitrary arguments; %s" % (n, doc),
              what, tier="quick" if m in quick else "thorough") for m, (doc, n, t) in VSTEP.items()]


def xsteps(what, quick=("X_U8_st4",), ops=None):
    return [H("step::%s::%s" % (m, op), t, 20, "every valid image <= %d bytes x %s with arbitrary arguments; %s" % (n, op, doc),
              what, tier="quick" if m in quick else "thorough") for m, (doc, n, t) in XSTEP.items() for op in (ops or XOPS)]


def xvsteps(what, ops=None, tier="thorough"):
    """FlexVec<FlatVec<u8,u8>,u8>: only the 4-byte lean push finishes (766 s); the 5/6-byte
    harnesses of the crate exhaust 24 GB and are not registered."""
    out = [H("step::X_V_st4::push", 2400, 16, "every valid image <= 4 bytes x push of a FlatVec of 0..2 items; FlexVec<FlatVec<u8,u8>,u8>", what, tier=tier)]
    if ops is None or "edit" in ops:
        out.append(H("step::X_V_st::edit", 2700, 16, "every valid image <= 6 bytes x push of one byte into item i; FlexVec<FlatVec<u8,u8>,u8>",
                     "editing one item of a FlexVec of FlatVecs leaves the others unchanged", tier=tier))
    return out


prop("C11", "FlatVec/FlatString behave as capacity-bounded Vec/String",
     "From every valid image up to the bound, one arbitrary operation with arbitrary arguments is compared with a fixed-capacity Vec/String model: len, capacity (unchanged), contents, remaining, size(), PartialEq, validity and re-mapping of the bytes.",
     ["images longer than the bound; slices/strings longer than 3 items per call", "element types beyond u8, u16, [u8;3], le::U16; length types beyond u8, u16, u32, le::U16",
      "operations that panic by contract (remove/swap_remove out of range, resize beyond capacity) are excluded by assumption"],
     vsteps("FlatVec step vs Vec model")
     + [H("step::string::str_step", 1800, 12, "every valid FlatString<u8> image <= 6 bytes x push(char: every scalar value) / push_str(<=3 bytes) / clear", "FlatString step vs String model"),
        H("step::lmax::vec_lmax", 1200, 10, "300-byte buffer, L = u8, every length byte", "capacity clamped to the length type's maximum; push at the maximum refused", tier="thorough")],
     STEP_ASSUME)

prop("C12", "FlexVec behaves as a sequence of items",
     "From every valid image up to the bound, one arbitrary operation (push, push_default, pop, truncate(n), clear, edit of item i through iter_mut) is compared with a sequence model: len, is_empty, items in order, size(), validity and re-mapping; pop removes exactly the last, truncate keeps min(n,len), editing one item leaves the others.",
     ["images longer than the bound (at most 6 items)", "item types beyond u8, u16, le::U16 (unsized items are covered read-only by C02/C05 and constructing by C03)"],
     xsteps("FlexVec step vs sequence model")
     + xvsteps("FlexVec of unsized items vs sequence-of-sequences model"),
     STEP_ASSUME)

prop("C13", "a rejected container operation leaves the container as it was",
     "The step harnesses on their Err branches: when push / push_slice / push_str / FlexVec::push is refused, the observable state (length, items, size(), validity, reference decoding) equals the pre-state. All ways of not fitting inside the bound arise because pre-state and arguments are arbitrary (exactly full, one byte short, slot fits but item does not).",
     ["'offset not representable in the length type' needs an item of >= 254 bytes: outside the byte bound"],
     vsteps("refused push/push_slice leave the FlatVec unchanged", quick=("V_U8_st", "V_U16_st"))
     + [H("step::string::str_step", 1800, 12, "every valid FlatString<u8> image <= 6 bytes", "refused push/push_str leave the FlatString unchanged")]
     + xsteps("refused FlexVec::push (no room, or the item's emplacer fails) leaves the FlexVec unchanged", ops=["push", "push_default", "push_failing"])
     + xvsteps("push refused because the unsized item does not fit leaves the FlexVec unchanged", ops=["push"]),
     STEP_ASSUME)


# ---------------------------------------------------------------- layout
LAYS = ["S_U16", "S_BOOL", "S_BOOL3", "S_SB", "S_SB2", "S_SS1", "S_SS2", "S_SE1", "S_CE", "S_SE16", "S_PS", "S_PE"]
LAY = ["X_U8P", "U_E5", "V_U8", "V_U8L32", "V_U16", "V_SB", "V_A3", "V_P", "STR8", "STR16", "X_U8", "X_U16", "U_S1", "U_S2", "U_S5", "U_S6",
       "U_PS", "U_E1", "U_E2", "U_E3", "U_E4", "U_PE"]
LAY_SLOW = {"V_SB", "STR16", "X_U16"}
# engine M (lib/mir2smt.py, lib/smt_run.py): generic MIR -> SMT, symbolic SIZE / ALIGN of the field types
MOBL = ["ceil_mul", "ceil_mul_any_m", "floor_mul", "max", "min", "PosIter_next", "SingleType_min_size", "TwoOrMore_min_size", "TwoOrMore_align",
        "FlatVec_DATA_OFFSET", "FlatVec_ALIGN", "FlatVec_ptr_from_bytes", "FlatVec_bytes_roundtrip", "FlatVec_size",
        "FlatString_ptr_from_bytes", "FlexVec_ptr_from_bytes"]
# macro-generated constants of generic #[flat] definitions (crate /verif/mgen)
MOBL_GEN = ["GS3_LAST_FIELD_OFFSET", "GS3_ALIGN", "GS3_MIN_SIZE", "GS3_ptr_from_bytes", "GS2_LAST_FIELD_OFFSET", "GS2_ptr_from_bytes",
            "GE_ALIGN", "GE_DATA_OFFSET", "GE_DATA_MIN_SIZES", "GE_MIN_SIZE", "GE_ptr_from_bytes"]
MOBL_GEN_SLOW = {"GS3_MIN_SIZE", "GS3_ptr_from_bytes", "GS2_ptr_from_bytes", "GE_MIN_SIZE", "GE_ptr_from_bytes"}
prop("C04", "computed layout equals the compiler's layout and the C rule",
     "ALIGN, MIN_SIZE and SIZE of every catalogue shape are compared with literals obtained by applying the C layout rule by hand; for every slice length up to the bound the mapped value's align_of_val is ALIGN, size_of_val <= slice length (never claims more bytes), as_bytes == size_of_val. Every field / payload / element offset is pinned by the accept family: content read through the accessors equals content decoded at the reference offsets for all byte strings; the emplace family pins the offsets used by the *Init emplacers the same way.",
     ["engine M: generic definitions of the shapes struct{A,FlatVec<C,L>}, struct{A,B,FlatVec<C,L>}, enum{V0,V1(A),V2{A,B},V3(B,FlatVec<C,L>)} with a u8 tag, for symbolic SIZE <= 65536, ALIGN in {1,2,4,8}, lengths <= 2^48; other arities, tag widths and tail kinds are decided on the concrete catalogue shapes only",
      "the alignment of the generated AlignAs struct is axiomatised as the maximum over its field list (read from the MIR) - that rustc lays out repr(C) this way is trusted and cross-checked by the layout harnesses on concrete shapes",
      "slices longer than the per-shape bound", "alignments above 4"],
     [H("lay::%s_l::layout_sized" % sh, 120, 4, SHAPE_DOC.get(sh, sh), "SIZE == size_of, ALIGN == align_of == reference (constants evaluated by rustc; recorded, not solver-decided)") for sh in LAYS]
     + [H("lay::%s_l::layout" % sh, 900 if sh in LAY_SLOW else 400, 8, "every slice length <= %d and content; %s" % (RO_BOUND[sh], SHAPE_DOC[sh]),
          "ALIGN/MIN_SIZE == reference; align_of_val == ALIGN; size_of_val <= n", tier="thorough" if sh in LAY_SLOW else "quick") for sh in LAY]
     + [M(n) for n in MOBL] + [M(n, tier="thorough" if n in MOBL_GEN_SLOW else "quick") for n in MOBL_GEN]
     + ro("accept", "offsets of fields / enum payloads / container data: accessor content == content at the reference offsets", shapes_quick=["U_S1", "U_S6", "U_E1", "U_E3", "S_SE1", "V_A3"], shapes_thorough=["U_S2", "U_E4", "X_U16"])
     + em("emplace", "offsets used by the generated initialisers == reference offsets", quick=["U_S6", "U_E1"], thorough=["U_S1", "U_E3"]))

PORT = {"X_U8P_p": "X_U8P", "S_PS_p": "S_PS", "S_PE_p": "S_PE", "V_P_p": "V_P", "STRP_p": "STRP", "U_PS_p": "U_PS", "U_PE_p": "U_PE"}
prop("C17", "portable composites have a padding-free, address-independent image",
     "For each portable shape every value is emplaced at every address offset 0..3; construction must succeed as soon as the bytes suffice (alignment 1), size() is the sum of the parts, and the image decodes, at prefix-sum offsets with explicit byte orders, to the specified content; it maps back at the same odd address.",
     ["portable definitions outside the catalogue (6 shapes: struct, enum, FlatVec, FlatString, unsized struct, unsized enum)", "the negative compile check (a non-portable field is rejected by the compiler) is a compile result, not run here"],
     [H("lay::%s::portable" % m, 900, 10, "every value, address offsets 0..3, arbitrary prior contents; " + SHAPE_DOC[sh], "built at any address; padding-free image == reference serialisation",
        tier="quick" if m in ("S_PS_p", "S_PE_p", "V_P_p", "U_PS_p", "X_U8P_p") else "thorough") for m, sh in PORT.items()]
     + ro("accept", "from_bytes at any address for alignment-1 shapes == reference decoding", shapes_quick=["S_PS", "S_PE", "V_P", "U_PS", "U_PE", "X_U8P"], shapes_thorough=["STRP", "X_P"])
     + em("default", "default_in_place of a portable FlexVec does not depend on prior buffer contents", quick=["X_U8P"], thorough=[]))

# ---------------------------------------------------------------- C14 (uses the constructing and the step families)
prop("C14", "in-place mutation stays inside the value",
     "Every constructing and mutating harness keeps the slice inside a larger symbolic array and asserts that all bytes outside the slice are unchanged (canaries), for successful and failing operations alike; CBMC's pointer checks flag writes past the enclosing object. Sibling-field preservation follows from the content equalities asserted after each step.",
     ["buffers longer than the per-shape bound", "sequences are covered one operation at a time from an arbitrary valid state"],
     em("emplace", "canaries outside [k, k+n) unchanged after new_in_place (Ok or Err)", quick=["V_U8", "V_U16", "V_U8L32", "U_S1", "U_E1", "X_U8", "V_A3", "U_E3"], thorough=["U_S4", "X_V", "X_U16", "V_SB"])
     + asg("canaries outside the target unchanged after assign_in_place (Ok or Err)", exclude=("U_E6_a",))
     + vsteps("bytes after the vector's slice unchanged after every FlatVec operation (element more aligned than the length type included)", quick=("V_U16_st",))
     + xsteps("bytes after the vector's slice unchanged after FlexVec push", ops=["push"]))

