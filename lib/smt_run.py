"""Engine M driver: dump generic MIR of flatty-base / flatty-containers from the repository's
current working tree (nightly rustc, -Zunpretty=mir), symbolically execute the layout
functions (lib/mir2smt.py) and discharge the obligations below with z3, cross-checked with
cvc5. `unsat` from both = holds for all values in the stated ranges; `sat` = counterexample
(reported with the model); anything else (unknown, timeout, (error, disagreement) =
inconclusive."""
import os
import re
import shutil
import subprocess
import time

import mir2smt as M

REPO = os.environ.get("VERIF_REPO", "/repo")
P2 = [1, 2, 4, 8, 16]


def one_of(v, vals):
    return "(or %s)" % " ".join("(= %s %d)" % (v, x) for x in vals)


def dump_mir(crate_dir, out_dir, tag, extra=()):
    tgt = os.path.join(out_dir, "mir-target-" + tag)
    shutil.rmtree(tgt, ignore_errors=True)
    env = dict(os.environ, CARGO_TARGET_DIR=tgt, CARGO_NET_OFFLINE="true")
    cmd = ["cargo", "+nightly", "rustc", "--offline", "--lib"] + list(extra) + ["--", "-Zunpretty=mir", "-C", "debug-assertions=off", "-C", "overflow-checks=on"]
    p = subprocess.run(cmd, cwd=crate_dir, env=env, stdout=subprocess.PIPE, stderr=subprocess.PIPE, text=True)
    shutil.rmtree(tgt, ignore_errors=True)
    if p.returncode != 0 or "fn " not in p.stdout:
        raise RuntimeError("MIR dump failed for %s: %s" % (crate_dir, p.stderr[-800:]))
    return p.stdout


def sym(ctx, pat, canonical=None):
    for path, name in ctx.symbols.items():
        if re.search(pat, path):
            return name
    # not mentioned by the function (e.g. after a change): declare it so that claims can refer to it
    return ctx.sym(canonical or ("unused:" + pat))


# ranges: what the language guarantees for Flat types, bounded sizes
def type_ranges(ctx, aligns=P2):
    out = []
    for path, name in ctx.symbols.items():
        if path.endswith("::ALIGN"):
            out.append(one_of(name, aligns))
        elif path.endswith("::SIZE") and re.search(r"<L as ", path):
            out.append(one_of(name, [1, 2, 4, 8]))
        elif path.endswith("::SIZE") or path.endswith("::MIN_SIZE"):
            out.append("(and (>= %s 0) (<= %s 65536))" % (name, name))
        else:
            out.append("(and (>= %s 0) (< %s %d))" % (name, name, M.U64))
    return out


class Obl:
    def __init__(self, name, crate, func, args, assume, claims, what, is_const=False, then=None, extra_vars=(), consts=None):
        self.name, self.crate, self.func, self.args, self.assume, self.claims = name, crate, func, args, assume, claims
        self.what, self.is_const, self.then, self.extra_vars = what, is_const, then, extra_vars
        self.consts = consts or {}


BIG = 2 ** 48

OBLIGATIONS = [
    Obl("ceil_mul", "base", r"^ceil_mul$", ["x", "m"],
        ["(>= x 0)", "(<= x %d)" % BIG, one_of("m", P2)],
        [("smallest multiple of m that is >= x", "(and (>= R x) (< R (+ x m)) (= (mod R m) 0))")],
        "ceil_mul(x, m) meets its specification, no overflow / division by zero, for x <= 2^48 and m in {1,2,4,8,16}"),
    Obl("ceil_mul_any_m", "base", r"^ceil_mul$", ["x", "m"],
        ["(>= x 0)", "(<= x %d)" % BIG, "(>= m 1)", "(<= m 65536)"],
        [("bounds for every modulus", "(and (>= R x) (< R (+ x m)))")],
        "ceil_mul(x, m) lies in [x, x+m) for every m in 1..65536"),
    Obl("floor_mul", "base", r"^floor_mul$", ["x", "m"],
        ["(>= x 0)", "(<= x %d)" % BIG, one_of("m", P2)],
        [("largest multiple of m that is <= x", "(and (<= R x) (> R (- x m)) (= (mod R m) 0))")],
        "floor_mul(x, m) meets its specification"),
    Obl("max", "base", r"^utils::max$", ["a", "b"], ["(>= a 0)", "(>= b 0)"],
        [("maximum", "(and (>= R a) (>= R b) (or (= R a) (= R b)))")], "utils::max"),
    Obl("min", "base", r"^utils::min$", ["a", "b"], ["(>= a 0)", "(>= b 0)"],
        [("minimum", "(and (<= R a) (<= R b) (or (= R a) (= R b)))")], "utils::min"),
    Obl("PosIter_next", "base", r"::next$ @@ \(_1: PosIter<TwoOrMoreTypes<T, I>>\)", [("tuple", ["pos", "@iter"])],
        ["(>= pos 0)", "(<= pos %d)" % BIG],
        [("C rule: the next field starts at the first multiple of its alignment after the previous field",
          "(and (>= R.0 (+ pos {T.SIZE})) (< R.0 (+ pos {T.SIZE} {NEXT.ALIGN})) (= (mod R.0 {NEXT.ALIGN}) 0))")],
        "PosIter::next computes the C-layout offset of the next field for every (size, alignment) of the two field types",
        ),
    Obl("SingleType_min_size", "base", r"::min_size$ @@ \(_1: &SingleType<T>,", ["@self", "pos"],
        ["(>= pos 0)", "(<= pos %d)" % BIG],
        [("offset of the last field plus its minimum size",
          "(and (>= (- R {T.MIN_SIZE}) pos) (< (- R {T.MIN_SIZE}) (+ pos {T.ALIGN})) (= (mod (- R {T.MIN_SIZE}) {T.ALIGN}) 0))")],
        "SingleType::min_size(pos) = round_up(pos, ALIGN) + MIN_SIZE"),
    Obl("TwoOrMore_min_size", "base", r"::min_size$ @@ \(_1: &TwoOrMoreTypes<T, I>,", [("tuple", ["@ph", "@next"]), "pos"],
        ["(>= pos 0)", "(<= pos %d)" % BIG],
        [("the rest of the list is measured from the end of this field",
          "(and (>= (- CALL0.1 {T.SIZE}) pos) (< (- CALL0.1 {T.SIZE}) (+ pos {T.ALIGN})) (= (mod (- CALL0.1 {T.SIZE}) {T.ALIGN}) 0))")],
        "TwoOrMoreTypes::min_size passes round_up(pos, ALIGN) + SIZE on to the rest of the type list"),
    Obl("TwoOrMore_align", "base", r"::align$ @@ \(_1: &TwoOrMoreTypes<T, I>\)", [("tuple", ["@ph", "@next"])],
        [], [("alignment of a list is the maximum", "(and (>= R {T.ALIGN}) (or (= R {T.ALIGN}) (= R RET0)))")],
        "TwoOrMoreTypes::align = max(T::ALIGN, rest.align())"),
    # ---- containers
    Obl("FlatVec_DATA_OFFSET", "cont", r"^vec::DataOffset::DATA_OFFSET$", [], [],
        [("offset of `data` in repr(C) { len: L, data: [T] }",
          "(and (>= R {L.SIZE}) (< R (+ {L.SIZE} {T.ALIGN})) (= (mod R {T.ALIGN}) 0))")],
        "FlatVec::DATA_OFFSET equals the C-layout offset of the element array for every length type size and element alignment", is_const=True),
    Obl("FlatVec_ALIGN", "cont", r"^vec::<impl at containers/src/vec\.rs:\d+:1: \d+:\d+>::ALIGN$", [], [],
        [("max of the two alignments", "(and (>= R {L.ALIGN}) (>= R {T.ALIGN}) (or (= R {L.ALIGN}) (= R {T.ALIGN})))")],
        "FlatVec::ALIGN = max(L::ALIGN, T::ALIGN)", is_const=True),
    Obl("FlatVec_ptr_from_bytes", "cont", r"^vec::<impl at containers/src/vec\.rs:\d+:1: \d+:\d+>::ptr_from_bytes$", [("fat", "n")],
        ["(>= n 0)", "(<= n %d)" % BIG, "(>= n DO)", "(<= {L.ALIGN} {L.SIZE})"],
        [("the mapped value (size_of_val = round_up(DATA_OFFSET + cap*SIZE, ALIGN)) does not exceed the slice",
          "(=> (and (>= Y (+ DO (* R.meta {T.SIZE}))) (< Y (+ DO (* R.meta {T.SIZE}) AL)) (= (mod Y AL) 0) (>= {T.SIZE} 1)) (<= Y n))")],
        "FlatVec::ptr_from_bytes: no underflow for n >= MIN_SIZE and size_of_val <= n, for every element size, alignments and slice length",
        extra_vars=("Y",)),
    Obl("FlatVec_bytes_roundtrip", "cont", r"^vec::<impl at containers/src/vec\.rs:\d+:1: \d+:\d+>::ptr_from_bytes$", [("fat", "n")],
        ["(>= n 0)", "(<= n %d)" % BIG, "(>= n DO)", "(<= {L.ALIGN} {L.SIZE})", "(>= {T.SIZE} 1)"],
        [("as_bytes of the mapped value fits the slice", "(<= R2.meta n)")],
        "ptr_to_bytes(ptr_from_bytes(n)) <= n (the claim that mapping it again gives the same capacity is proved by z3 4.8.12 only, z3 5.1 and cvc5 time out: not registered; the accept harnesses decide it for the catalogue shapes)",
        then=[r"^vec::<impl at containers/src/vec\.rs:\d+:1: \d+:\d+>::ptr_to_bytes$"]),
    Obl("FlatVec_size", "cont", r"^vec::<impl at containers/src/vec\.rs:\d+:1: \d+:\d+>::size$", ["@self"],
        ["(>= RET0 0)", "(<= RET0 65536)"],
        [("size() = round_up(DATA_OFFSET + SIZE*len, ALIGN)",
          "(and (>= R (+ DO (* {T.SIZE} RET0))) (< R (+ DO (* {T.SIZE} RET0) AL)) (= (mod R AL) 0))")],
        "FlatVec::size() is the extent of len items rounded up to the alignment"),
    Obl("FlatString_ptr_from_bytes", "cont", r"^string::<impl at containers/src/string\.rs:\d+:1: \d+:\d+>::ptr_from_bytes$", [("fat", "n")],
        ["(>= n 0)", "(<= n %d)" % BIG, "(>= n {L.SIZE})", "(<= {L.ALIGN} {L.SIZE})"],
        [("the mapped string does not exceed the slice", "(<= (+ {L.SIZE} R.meta) n)")],
        "FlatString::ptr_from_bytes: capacity fits the slice"),
    Obl("FlexVec_ptr_from_bytes", "cont", r"^flex::<impl at containers/src/flex\.rs:\d+:1: \d+:\d+>::ptr_from_bytes$", [("fat", "n")],
        ["(>= n 0)", "(<= n %d)" % BIG],
        [("the mapped vector covers the largest ALIGN-multiple prefix", "(and (<= R.meta n) (> R.meta (- n XAL)) (= (mod R.meta XAL) 0))")],
        "FlexVec::ptr_from_bytes covers floor(n, ALIGN) bytes"),
]



# ---- macro-generated constants of generic #[flat] definitions (crate /verif/mgen)
# A and B are sized field types: MIN_SIZE == SIZE (blanket impl of FlatBase for FlatSized)
G_RANGES = ["(<= {L.ALIGN} {L.SIZE})", "(= {A.MIN_SIZE} {A.SIZE})", "(= {B.MIN_SIZE} {B.SIZE})"]
OBLIGATIONS += [
    Obl("GS3_LAST_FIELD_OFFSET", "mgen", "span:GS3::LAST_FIELD_OFFSET", [], G_RANGES,
        [("C offset of the last field of struct {a: A, b: B, c: FlatVec<C, L>}", "(= R (rup (+ (rup {A.SIZE} {B.ALIGN}) {B.SIZE}) (mx {C.ALIGN} {L.ALIGN})))")],
        "#[flat(sized=false)] struct: LAST_FIELD_OFFSET equals the C-layout offset of the unsized tail for every size/alignment of A, B, C, L", is_const=True),
    Obl("GS3_ALIGN", "mgen", "span:GS3::ALIGN", [], G_RANGES,
        [("maximum alignment of all fields (read off the generated AlignAs struct)", "(= R (mx (mx {A.ALIGN} {B.ALIGN}) (mx {C.ALIGN} {L.ALIGN})))")],
        "ALIGN of the generated struct is the maximum field alignment", is_const=True),
    Obl("GS3_MIN_SIZE", "mgen", "span:GS3::MIN_SIZE", [], G_RANGES,
        [("offset of the tail + its minimum size, rounded up to ALIGN", "(= R (rup (+ (rup (+ (rup {A.SIZE} {B.ALIGN}) {B.SIZE}) (mx {C.ALIGN} {L.ALIGN})) (mx {L.SIZE} {C.ALIGN})) (mx (mx {A.ALIGN} {B.ALIGN}) (mx {C.ALIGN} {L.ALIGN}))))"),
         ("multiple of ALIGN", "(= (mod R (mx (mx {A.ALIGN} {B.ALIGN}) (mx {C.ALIGN} {L.ALIGN}))) 0)")],
        "MIN_SIZE of the generated struct", is_const=True),
    Obl("GS3_ptr_from_bytes", "mgen", "span:GS3::ptr_from_bytes", [("fat", "n")],
        G_RANGES + ["(>= n 0)", "(<= n 281474976710656)", "(>= n MINLIB)", "(>= addr 0)", "(<= addr 281474976710656)"],
        [("the mapped struct (size_of_val = round_up(LAST_FIELD_OFFSET + DATA_OFFSET + cap*SIZE, ALIGN)) does not exceed the slice",
          "(=> (and (>= Y (+ LFOLIB FVDOLIB (* R.meta {C.SIZE}))) (< Y (+ LFOLIB FVDOLIB (* R.meta {C.SIZE}) ALLIB)) (= (mod Y ALLIB) 0) (>= {C.SIZE} 1)) (<= Y n))"),
         ("the pointer still addresses the start of the slice", "(= R.addr addr)")],
        "generated ptr_from_bytes of an unsized struct: no underflow for n >= MIN_SIZE, size_of_val <= n, address unchanged",
        extra_vars=("Y",), consts={"MINLIB": "<GS3<A, B, C, L> as FlatBase>::MIN_SIZE", "LFOLIB": "GS3::<A, B, C, L>::LAST_FIELD_OFFSET",
                                   "FVDOLIB": "<FlatVec<C, L> as DataOffset<C, L>>::DATA_OFFSET", "ALLIB": "<GS3<A, B, C, L> as FlatBase>::ALIGN"}),
    Obl("GS2_LAST_FIELD_OFFSET", "mgen", "span:GS2::LAST_FIELD_OFFSET", [], G_RANGES,
        [("C offset of the last field of struct {a: A, c: FlatVec<C, L>}", "(= R (rup {A.SIZE} (mx {C.ALIGN} {L.ALIGN})))")],
        "two-field unsized struct: LAST_FIELD_OFFSET", is_const=True),
    Obl("GS2_ptr_from_bytes", "mgen", "span:GS2::ptr_from_bytes", [("fat", "n")],
        G_RANGES + ["(>= n 0)", "(<= n 281474976710656)", "(>= n MINLIB)", "(>= addr 0)", "(<= addr 281474976710656)"],
        [("size_of_val <= n",
          "(=> (and (>= Y (+ LFOLIB FVDOLIB (* R.meta {C.SIZE}))) (< Y (+ LFOLIB FVDOLIB (* R.meta {C.SIZE}) ALLIB)) (= (mod Y ALLIB) 0) (>= {C.SIZE} 1)) (<= Y n))")],
        "generated ptr_from_bytes of a two-field unsized struct",
        extra_vars=("Y",), consts={"MINLIB": "<GS2<A, C, L> as FlatBase>::MIN_SIZE", "LFOLIB": "GS2::<A, C, L>::LAST_FIELD_OFFSET",
                                   "FVDOLIB": "<FlatVec<C, L> as DataOffset<C, L>>::DATA_OFFSET", "ALLIB": "<GS2<A, C, L> as FlatBase>::ALIGN"}),
    Obl("GE_ALIGN", "mgen", "span:GE::ALIGN", [], G_RANGES,
        [("maximum alignment of the tag and of every variant field", "(= R (mx 1 (mx (mx {A.ALIGN} {B.ALIGN}) (mx {C.ALIGN} {L.ALIGN}))))")],
        "ALIGN of the generated unsized enum {V0, V1(A), V2{a: A, b: B}, V3(B, FlatVec<C, L>)}", is_const=True),
    Obl("GE_DATA_OFFSET", "mgen", "span:GE::DATA_OFFSET", [], G_RANGES,
        [("offset of the payload after a u8 tag", "(= R (rup 1 (mx 1 (mx (mx {A.ALIGN} {B.ALIGN}) (mx {C.ALIGN} {L.ALIGN})))))")],
        "DATA_OFFSET of the generated enum = round_up(tag size, ALIGN)", is_const=True),
    Obl("GE_DATA_MIN_SIZES", "mgen", "span:GE::DATA_MIN_SIZES", [], G_RANGES,
        [("per-variant minimum payload sizes follow the C rule",
          "(and (= R.0 0) (= R.1 {A.SIZE}) (= R.2 (+ (rup {A.SIZE} {B.ALIGN}) {B.SIZE})) (= R.3 (+ (rup {B.SIZE} (mx {C.ALIGN} {L.ALIGN})) (mx {L.SIZE} {C.ALIGN}))))")],
        "DATA_MIN_SIZES of the generated enum", is_const=True),
    Obl("GE_MIN_SIZE", "mgen", "span:GE::MIN_SIZE", [], G_RANGES,
        [("payload offset plus the smallest variant, rounded up", "(= R (rup 1 (mx 1 (mx (mx {A.ALIGN} {B.ALIGN}) (mx {C.ALIGN} {L.ALIGN})))))")],
        "MIN_SIZE of the generated enum", is_const=True),
    Obl("GE_ptr_from_bytes", "mgen", "span:GE::ptr_from_bytes", [("fat", "n")],
        G_RANGES + ["(>= n 0)", "(<= n 281474976710656)", "(>= n MINLIB)"],
        [("the payload view is the largest ALIGN-multiple that fits", "(and (<= (+ DOLIB R.meta) n) (= (mod R.meta ALLIB) 0) (> (+ DOLIB R.meta ALLIB) n))")],
        "generated ptr_from_bytes of an unsized enum: no underflow for n >= MIN_SIZE; covers DATA_OFFSET + floor(n - DATA_OFFSET, ALIGN) bytes",
        consts={"MINLIB": "<GE<A, B, C, L> as FlatBase>::MIN_SIZE", "DOLIB": "GE::<A, B, C, L>::DATA_OFFSET", "ALLIB": "<GE<A, B, C, L> as FlatBase>::ALIGN"}),
]


def build_args(ctx, spec, decls):
    vals = []
    for a in spec:
        if isinstance(a, tuple) and a[0] == "tuple":
            items = []
            for f in a[1]:
                if f.startswith("@"):
                    items.append(M.Opaque(f[1:]))
                else:
                    decls.append(f)
                    items.append(M.I(f))
            vals.append(M.Tup(items))
        elif isinstance(a, tuple) and a[0] == "fat":
            decls.append(a[1])
            decls.append("addr")
            vals.append(M.Fat("addr", a[1]))
        elif a.startswith("@"):
            vals.append(M.Opaque(a[1:]))
        else:
            decls.append(a)
            vals.append(M.I(a))
    return vals


def term_of(v, proj=None):
    if isinstance(v, M.I):
        if proj is not None:
            raise M.Unsupported("projection .%s of a scalar result" % proj)
        return v.t
    if isinstance(v, M.Fat):
        return v.meta if proj == "meta" else "(+ 0 %s)" % v.addr
    if isinstance(v, M.Tup):
        return term_of(v.items[int(proj)])
    raise M.Unsupported("result projection")


def subst(claim, ctx, rets, path):
    def rep_sym(m):
        k = m.group(1)
        ty, what = k.split(".")
        if ty == "NEXT":
            return sym(ctx, r"<<I as TypeIter>::Item as FlatBase>::ALIGN$", "<<I as TypeIter>::Item as FlatBase>::ALIGN")
        trait = "FlatSized" if what == "SIZE" else "FlatBase"
        path = "<%s as %s>::%s" % (ty, trait, what)
        return sym(ctx, "^" + re.escape(path) + "$", path)
    s = re.sub(r"\{([A-Z]+\.[A-Z_]+)\}", rep_sym, claim)
    for i in (3, 2, 1):
        tag = "R%d" % i if i > 1 else "R"
        if i - 1 < len(rets):
            s = re.sub(r"\b%s\.(meta|addr|\d+)\b" % tag, lambda m: term_of(rets[i - 1], m.group(1)), s)
            if isinstance(rets[i - 1], M.I):
                s = re.sub(r"\b%s\b(?![.!])" % tag, rets[i - 1].t, s)
    for k, (callee, args) in enumerate(path.calls):
        s = re.sub(r"\bCALL%d\.(\d+)\b" % k, lambda m: term_of(args[int(m.group(1))]), s)
    rk = 0
    for name, sort in ctx.decls:
        if name.startswith("ret_"):
            s = re.sub(r"\bRET%d\b" % rk, name, s)
            rk += 1
    return s


def _solve1(smt, solver, timeout):
    cmd = {"z3": ["z3", "-in", "-T:%d" % timeout], "z3-new": ["z3-new", "-in", "-T:%d" % timeout], "cvc5": ["cvc5", "--lang", "smt2", "--tlimit=%d" % (timeout * 1000), "--produce-models"]}[solver]
    try:
        p = subprocess.run(cmd, input=smt, stdout=subprocess.PIPE, stderr=subprocess.STDOUT, text=True, timeout=timeout + 10)
        return p.stdout
    except subprocess.TimeoutExpired:
        return "timeout"


def _case_split(smt):
    """cvc5 does not finish on the non-linear `mod`/`*` terms with symbolic moduli, z3 does.
    Every modulus here ranges over an explicitly enumerated set ((or (= X 1) (= X 2) ...)), so
    for cvc5 the same query is expanded into one incremental check per assignment of those
    symbols (push / assert equalities / check-sat / pop in one process)."""
    enums = []
    for m in re.finditer(r"^\(assert \(or((?: \(= [^ ()]+ \d+\))+)\)\)$", smt, re.M):
        pairs = re.findall(r"\(= ([^ ()]+) (\d+)\)", m.group(1))
        names = set(a for a, _ in pairs)
        if len(names) == 1:
            enums.append((pairs[0][0], [int(v) for _, v in pairs]))
    lines = [l for l in smt.split("\n") if l and l != "(check-sat)"]
    decl = [l for l in lines if l.startswith("(declare-const") or l.startswith("(set-logic")]
    rest = [l for l in lines if l not in decl]
    combos = [[]]
    for (n, vals) in enums:
        combos = [c + [(n, v)] for c in combos for v in vals]
        if len(combos) > 4000:
            return None, 0
    script = ["(set-option :incremental true)"] + decl
    for c in combos:
        script.append("(push 1)")
        body = "\n".join(rest)
        for (n, v) in c:
            # textual substitution makes every modulus a literal: the case is linear
            body = re.sub(r"(?<![\w.!])" + re.escape(n) + r"(?![\w.!])", str(v), body)
        script.append(body)
        script.append("(check-sat)")
        script.append("(pop 1)")
    return "\n".join(script) + "\n", len(combos)


def solve_split(smt, solver="cvc5", timeout=120):
    """one incremental check per assignment of the enumerated moduli"""
    t0 = time.time()
    script, n = _case_split(smt)
    if script is None:
        return "too-many-cases", "", time.time() - t0, 0
    if solver != "cvc5":
        script = script.replace("(set-option :incremental true)\n", "")
    out = _solve1(script, solver, timeout)
    answers = [l for l in out.strip().split("\n") if l in ("sat", "unsat", "unknown")]
    if "(error" in out:
        return "error", out, time.time() - t0, n
    if "sat" in answers:
        return "sat", out, time.time() - t0, n
    if len(answers) == n and all(a == "unsat" for a in answers):
        return "unsat", out, time.time() - t0, n
    return "unknown(%d/%d cases answered)" % (len(answers), n), out, time.time() - t0, n


def count_cases(smt):
    script, n = _case_split(smt)
    return n if script is not None else 10 ** 9


def solve(smt, solver, timeout=60):
    """smt ends with (check-sat). Any `(error` line makes the answer inconclusive; a model is
    fetched in a second run only when the answer is sat."""
    t0 = time.time()
    out = _solve1(smt, solver, timeout)
    first = out.strip().split("\n")[0] if out.strip() else "empty"
    if "(error" in out:
        first = "error"
    if first == "sat":
        out = _solve1(smt + "(get-model)\n", solver, timeout)
    return first, out, time.time() - t0


def run_obligation(o, funcs_by_crate):
    res = {"name": o.name, "what": o.what, "function": o.func, "claims": [c[0] for c in o.claims], "queries": 0, "solver_s": 0.0,
           "verdict": "unsat", "ranges": o.assume, "detail": []}
    try:
        ctx = M.Ctx(funcs_by_crate[o.crate])
        decls = []
        args = build_args(ctx, o.args, decls)
        fpat = o.func
        if fpat.startswith("span:"):
            tyname, item = fpat[5:].split("::")
            span = M.impl_span_of(ctx, tyname)
            if not span:
                raise M.Unsupported("no impl for " + tyname)
            fpat = "^" + re.escape(span) + "::" + item + "$"
        f = M.find_func(ctx, fpat, want_const=True if o.is_const else None)
        p0 = M.Path()
        paths = M.execute(ctx, f, args, p0)
        # composition
        stages = []
        for (p, r) in paths:
            stages.append((p, [r]))
        for nxt in (o.then or []):
            g = M.find_func(ctx, nxt)
            new = []
            for (p, rs) in stages:
                for (q, r2) in M.execute(ctx, g, [rs[-1]], p):
                    new.append((q, rs + [r2]))
            stages = new
        if not stages:
            raise M.Unsupported("no return path")
        # constants used in claims
        pconst = M.Path()
        have_vec = any("vec::" in f_.name for f_ in ctx.funcs)
        consts = {}
        if o.crate == "cont":
            if "vec" in o.func or "DataOffset" in o.func:
                consts["DO"] = M.const_value(ctx, "<vec::FlatVec<T, L> as vec::DataOffset<T, L>>::DATA_OFFSET", pconst).t
                consts["AL"] = M.const_value(ctx, "<vec::FlatVec<T, L> as flatty_base::traits::FlatBase>::ALIGN", pconst).t
            if "flex" in o.func:
                consts["XAL"] = M.const_value(ctx, "<flex::FlexVec<T, L> as flatty_base::traits::FlatBase>::ALIGN", pconst).t
        for k, expr in o.consts.items():
            consts[k] = M.const_value(ctx, expr, pconst).t
        for (p, rets) in stages:
            # resolve every placeholder first: this may declare symbols the function never mentions
            for a in o.assume:
                subst(a, ctx, rets, p)
            for (_, c) in o.claims:
                subst(c, ctx, rets, p)

            def prelude(extra_assume):
                names = set()
                lines = ["(set-logic ALL)"]
                for n in decls + list(o.extra_vars):
                    if n not in names:
                        names.add(n)
                        lines.append("(declare-const %s Int)" % n)
                for (n, sort) in ctx.decls:
                    if n not in names:
                        names.add(n)
                        lines.append("(declare-const %s %s)" % (n, sort))
                lines.append("(define-fun rup ((x Int) (a Int)) Int (+ x (mod (- a (mod x a)) a)))")
                lines.append("(define-fun mx ((a Int) (b Int)) Int (ite (>= a b) a b))")
                for k, v in consts.items():
                    lines.append("(define-fun %s () Int %s)" % (k, v))
                # generic definitions have four alignment parameters: {1,2,4,8} keeps the case split at 1024
                for a in type_ranges(ctx, [1, 2, 4, 8] if o.crate == "mgen" else P2):
                    lines.append("(assert %s)" % a)
                for a in pconst.assume:
                    lines.append("(assert %s)" % a)
                for a in o.assume:
                    lines.append("(assert %s)" % subst(a, ctx, rets, p))
                for a in extra_assume:
                    lines.append("(assert %s)" % a)
                return lines
            queries = []
            for (desc, at, cond) in p.oblig:
                queries.append(("no panic: " + desc, prelude(at) + ["(assert (not %s))" % cond, "(check-sat)"]))
            for (desc, claim) in o.claims:
                queries.append((desc, prelude(p.assume) + ["(assert (not %s))" % subst(claim, ctx, rets, p), "(check-sat)"]))
            for (desc, q) in queries:
                smt = "\n".join(q) + "\n"
                if os.environ.get("SMT_DUMP"):
                    open(os.path.join(os.environ["SMT_DUMP"], "%s-%d.smt2" % (o.name, res["queries"])), "w").write(smt)
                nonlinear = "(mod " in smt or "(* " in smt
                ncases = count_cases(smt) if nonlinear else 1
                if nonlinear and res.get("_plain_z3_fails"):
                    v1, out1, t1 = "skipped", "", 0.0
                else:
                    v1, out1, t1 = solve(smt, "z3", timeout=15 if nonlinear else 60)
                if v1 not in ("sat", "unsat") and nonlinear:
                    res["_plain_z3_fails"] = True
                    v1, out1, t1b, _ = solve_split(smt, "z3", timeout=300)
                    t1 += t1b
                # second opinion: cvc5 (case-split over the enumerated moduli when the query is
                # non-linear; it does not finish otherwise). With more than 300 cases cvc5 needs
                # minutes per query: z3 5.1.0 on the same case split is used instead.
                if not nonlinear:
                    v2, out2, t2 = solve(smt, "cvc5", timeout=30)
                    second = "cvc5"
                elif ncases <= 300:
                    v2, out2, t2, _ = solve_split(smt, "cvc5", timeout=120)
                    second = "cvc5 (%d cases)" % ncases
                else:
                    v2, out2, t2, _ = solve_split(smt, "z3-new", timeout=300)
                    second = "z3-5.1.0 (%d cases; too many for cvc5)" % ncases
                if v2 not in ("sat", "unsat"):
                    v3, out3, t3 = solve(smt, "z3-new", timeout=60)
                    t2 += t3
                    if v3 in ("sat", "unsat"):
                        v2, out2, second = v3, out3, "z3-5.1.0 (first choice gave no answer)"
                res.setdefault("second_solver", {})[desc] = second
                res["queries"] += 1
                res["solver_s"] += t1 + t2
                if v1 == "unsat" and v2 == "unsat":
                    continue
                if v1 == "sat" and v2 == "sat":
                    res["verdict"] = "sat"
                    res["detail"].append({"query": desc, "z3": v1, "second": v2, "model": out1[:1500]})
                else:
                    if res["verdict"] != "sat":
                        res["verdict"] = "inconclusive(%s/%s)" % (v1, v2)
                    res["detail"].append({"query": desc, "z3": v1, "cvc5": v2})
    except (M.Unsupported, RuntimeError, KeyError, IndexError) as e:
        res["verdict"] = "inconclusive(encoder: %s)" % str(e)[:200]
    res["solver_s"] = round(res["solver_s"], 2)
    res.pop("_plain_z3_fails", None)
    return res


def run(pid, tier, mjobs, run_dir):
    wanted = set(j["name"] for j in mjobs)
    base = M.parse_mir(dump_mir(os.path.join(REPO, "base"), run_dir, "base"))
    cont = M.parse_mir(dump_mir(os.path.join(REPO, "containers"), run_dir, "cont", ["--no-default-features"]))
    funcs = {"base": base, "cont": cont + base}
    if any(o.crate == "mgen" and o.name in wanted for o in OBLIGATIONS):
        mg = os.path.join(run_dir, "mgen")
        shutil.rmtree(mg, ignore_errors=True)
        shutil.copytree(os.path.join(os.path.dirname(os.path.dirname(os.path.abspath(__file__))), "mgen"), mg, ignore=shutil.ignore_patterns("target"))
        ct = open(os.path.join(mg, "Cargo.toml")).read().replace('"/repo"', '"%s"' % REPO)
        open(os.path.join(mg, "Cargo.toml"), "w").write(ct)
        funcs["mgen"] = M.parse_mir(dump_mir(mg, run_dir, "mgen")) + cont + base
    out = []
    from concurrent.futures import ThreadPoolExecutor
    todo = [o for o in OBLIGATIONS if o.name in wanted]

    def one(o):
        r = run_obligation(o, funcs)
        M_log("  [smt %s] %s  queries=%d  %.1fs" % (r["verdict"], o.name, r["queries"], r["solver_s"]))
        return r
    with ThreadPoolExecutor(max_workers=int(os.environ.get("VERIF_JOBS", "12"))) as ex:
        out = list(ex.map(one, todo))
    missing = wanted - set(r["name"] for r in out)
    for m in missing:
        out.append({"name": m, "verdict": "inconclusive(no such obligation)", "queries": 0, "solver_s": 0})
    samples = [{"obligation": r["name"], "what": r.get("what"), "ranges": r.get("ranges"), "queries": r["queries"], "verdict": r["verdict"]} for r in out[:6]]
    return {"obligations": out, "samples": samples}


def M_log(s):
    import sys
    sys.stderr.write(s + "\n")


if __name__ == "__main__":
    import json, sys
    rd = "/verif/.build/runs/smt-dev"
    os.makedirs(rd, exist_ok=True)
    names = sys.argv[1:] or [o.name for o in OBLIGATIONS]
    r = run("C04", "quick", [{"name": n} for n in names], rd)
    for o in r["obligations"]:
        print(o["name"], o["verdict"], o["queries"], o["solver_s"])
        for d in o.get("detail", []):
            print("    ", json.dumps(d)[:900])
