"""Engine K: compile the harness crate with Kani from /repo's current working tree,
then run Kani's own goto-cc / goto-instrument / cbmc pipeline per harness, in
parallel, with per-harness time and memory caps, and parse CBMC's JSON verdicts.

The command lines are the ones `cargo kani --verbose` (0.68.0) prints; only the
scheduling is ours (kani-driver runs harnesses one after another without a
per-harness memory cap)."""
import fcntl
import glob
import json
import os
import re
import resource
import shutil
import subprocess
import sys
import threading
import time

VERIF = os.path.dirname(os.path.dirname(os.path.abspath(__file__)))
HARNESS_DIR = os.path.join(VERIF, "harness")
BUILD = os.path.join(VERIF, ".build")
TARGET = os.path.join(BUILD, "target")
# Development aid (seeded-change runs in parallel): VERIF_REPO=<copy of the repository> makes
# this process use a private copy of the harness crate whose path dependencies point at that
# copy, with its own target directory. The registered commands never set it: they use /repo.
_ALT_HARNESS = os.environ.get("VERIF_HARNESS")  # development aid: a scratch copy of the harness crate
if _ALT_HARNESS and not os.environ.get("VERIF_REPO"):
    HARNESS_DIR = _ALT_HARNESS
    BUILD = os.path.join(VERIF, ".build", "alt-harness")
    TARGET = os.path.join(BUILD, "target")
_ALT_REPO = os.environ.get("VERIF_REPO")
if _ALT_REPO:
    _tag = "alt-" + re.sub(r"[^A-Za-z0-9]", "_", _ALT_REPO.strip("/"))
    BUILD = os.path.join(VERIF, ".build", _tag)
    TARGET = os.path.join(BUILD, "target")
    _h = os.path.join(BUILD, "harness")
    if os.path.exists(_h):
        shutil.rmtree(_h)
    shutil.copytree(HARNESS_DIR, _h, ignore=shutil.ignore_patterns("target"))
    _ct = open(os.path.join(_h, "Cargo.toml")).read().replace('"/repo/io"', '"%s/io"' % _ALT_REPO).replace('"/repo"', '"%s"' % _ALT_REPO)
    open(os.path.join(_h, "Cargo.toml"), "w").write(_ct)
    HARNESS_DIR = _h
KANI_HOME = os.path.expanduser("~/.kani/kani-0.68.0")
KANI_LIB_C = os.path.join(KANI_HOME, "library/kani/kani_lib.c")
ENV = dict(os.environ, CARGO_NET_OFFLINE="true", CARGO_TERM_COLOR="never")

CBMC_FLAGS = [
    "--no-malloc-may-fail", "--no-undefined-shift-check", "--no-signed-overflow-check",
    "--nan-check", "--no-self-loops-to-assumptions", "--no-pointer-primitive-check",
    "--object-bits", "16", "--sat-solver", "cadical", "--slice-formula",
]

# CBMC property classes that are Kani instrumentation rather than program behaviour.
IGNORED_CLASSES = {"reachability_check", "cover"}
# Kani's float instrumentation (DESIGN 3.6): not part of any property here.
IGNORED_DESC = re.compile(r"^NaN on ")


class BuildError(Exception):
    pass


def log(msg):
    sys.stderr.write(msg + "\n")
    sys.stderr.flush()


def build(harnesses, run_dir, extra_kani_args=()):
    """Codegen the given harnesses (pretty names) and copy the goto symtabs into run_dir.
    Returns {pretty_name: {symtab, mangled, unwind}} and build seconds."""
    os.makedirs(BUILD, exist_ok=True)
    os.makedirs(run_dir, exist_ok=True)
    t0 = time.time()
    with open(os.path.join(BUILD, "lock"), "w") as lk:
        fcntl.flock(lk, fcntl.LOCK_EX)
        out_glob = os.path.join(TARGET, "kani", "x86_64-unknown-linux-gnu", "debug", "build",
                                "flatty-verif-harness", "*")
        for d in glob.glob(out_glob):
            shutil.rmtree(d, ignore_errors=True)
        # force re-codegen of the harness crate itself; dependencies (all of /repo's
        # crates are path dependencies) are rebuilt by cargo whenever their sources changed
        os.utime(os.path.join(HARNESS_DIR, "src", "lib.rs"))
        cmd = ["cargo", "kani", "--only-codegen", "--target-dir", TARGET, "--exact"]
        for h in harnesses:
            cmd += ["--harness", h]
        cmd += list(extra_kani_args)
        p = subprocess.run(cmd, cwd=HARNESS_DIR, env=ENV, stdout=subprocess.PIPE,
                           stderr=subprocess.STDOUT, text=True)
        with open(os.path.join(run_dir, "build.log"), "w") as f:
            f.write(p.stdout)
        if p.returncode != 0:
            raise BuildError("cargo kani --only-codegen failed:\n" + p.stdout[-6000:])
        metas = glob.glob(os.path.join(out_glob, "out", "*.kani-metadata.json"))
        if not metas:
            raise BuildError("no kani metadata produced:\n" + p.stdout[-3000:])
        meta_path = max(metas, key=os.path.getmtime)
        meta = json.load(open(meta_path))
        res = {}
        for ph in meta["proof_harnesses"]:
            name = ph["pretty_name"]
            if name not in harnesses:
                continue
            dst = os.path.join(run_dir, name.replace("::", "__") + ".symtab.out")
            shutil.copyfile(ph["goto_file"], dst)
            res[name] = {
                "symtab": dst,
                "mangled": ph["mangled_name"],
                "unwind": ph["attributes"].get("unwind_value"),
                "file": ph["original_file"],
                "line": ph["original_start_line"],
            }
        missing = [h for h in harnesses if h not in res]
        if missing:
            raise BuildError("harnesses not found in crate: %s" % missing)
    return res, time.time() - t0


def _limit(mem_gb):
    def f():
        lim = int(mem_gb * (1 << 30))
        resource.setrlimit(resource.RLIMIT_AS, (lim, lim))
        os.setsid()
    return f


def _run(cmd, timeout, mem_gb, stdout_path=None):
    t0 = time.time()
    out = open(stdout_path, "wb") if stdout_path else subprocess.PIPE
    p = subprocess.Popen(cmd, stdout=out, stderr=subprocess.PIPE, preexec_fn=_limit(mem_gb))
    try:
        _, err = p.communicate(timeout=timeout)
        to = False
    except subprocess.TimeoutExpired:
        try:
            os.killpg(p.pid, 9)
        except ProcessLookupError:
            pass
        _, err = p.communicate()
        to = True
    if stdout_path:
        out.close()
    ru = resource.getrusage(resource.RUSAGE_CHILDREN)
    return p.returncode, to, time.time() - t0, (err or b"").decode("utf-8", "replace")


def run_harness(name, info, run_dir, timeout_s, mem_gb):
    """Runs the Kani pipeline for one harness. Returns a result dict."""
    base = os.path.join(run_dir, name.replace("::", "__"))
    out = base + ".out"
    r = {"harness": name, "unwind": info["unwind"], "timeout_s": timeout_s, "mem_gb": mem_gb,
         "status": "error", "checks": [], "covers": [], "functions": [], "stats": {}}
    t0 = time.time()
    steps = [
        ["goto-cc", info["symtab"], KANI_LIB_C, "-o", out],
        ["goto-cc", out, "--function", info["mangled"], "-o", out],
        ["goto-instrument", "--add-library", "--no-malloc-may-fail", out, out],
        ["goto-instrument", "--generate-function-body-options", "assert-false-assume-false",
         "--generate-function-body", ".*", "--drop-unused-functions", out, out],
        ["goto-instrument", "--ensure-one-backedge-per-target", out, out],
    ]
    for s in steps:
        rc, to, dt, err = _run(s, 600, 8)
        if rc != 0 or to:
            r["status"] = "error"
            r["detail"] = "%s failed rc=%s: %s" % (s[0], rc, err[-500:])
            return r
    cmd = ["cbmc"] + CBMC_FLAGS
    if info["unwind"] is not None:
        cmd += ["--unwind", str(info["unwind"])]
    cmd += [out, "--verbosity", "9", "--json-ui"]
    jpath = base + ".json"
    rc, to, dt, err = _run(cmd, timeout_s, mem_gb, jpath)
    r["wall_s"] = round(time.time() - t0, 2)
    if to:
        r["status"] = "timeout"
        r["detail"] = "cbmc exceeded %ds" % timeout_s
        _rm(out)
        return r
    try:
        parse_cbmc_json(jpath, r)
    except Exception as e:  # truncated output: OOM / crash
        r["status"] = "error"
        r["detail"] = "cbmc rc=%s, unparsable output (%s); stderr: %s" % (rc, e, err[-300:])
        _rm(out)
        return r
    _rm(out)
    return r


def _rm(p):
    try:
        os.remove(p)
    except OSError:
        pass


def parse_cbmc_json(path, r):
    data = json.load(open(path))
    results = None
    status = None
    stats = {"symex_s": 0.0, "solver_s": 0.0, "decision_s": 0.0, "variables": 0, "clauses": 0,
             "program_steps": 0, "solver_calls": 0}
    errors = []
    for e in data:
        if "result" in e:
            results = e["result"]
        elif "cProverStatus" in e:
            status = e["cProverStatus"]
        elif "messageText" in e:
            t = e["messageText"]
            m = re.match(r"Runtime Symex: ([\d.e+-]+)s", t)
            if m:
                stats["symex_s"] += float(m.group(1))
            m = re.match(r"Runtime Solver: ([\d.e+-]+)s", t)
            if m:
                stats["solver_s"] += float(m.group(1))
                stats["solver_calls"] += 1
            m = re.match(r"Runtime decision procedure: ([\d.e+-]+)s", t)
            if m:
                stats["decision_s"] += float(m.group(1))
            m = re.match(r"(\d+) variables, (\d+) clauses", t)
            if m:
                stats["variables"] = max(stats["variables"], int(m.group(1)))
                stats["clauses"] = max(stats["clauses"], int(m.group(2)))
            m = re.match(r"size of program expression: (\d+) steps", t)
            if m:
                stats["program_steps"] = int(m.group(1))
            if e.get("messageType") == "ERROR":
                errors.append(t)
    for k in ("symex_s", "solver_s", "decision_s"):
        stats[k] = round(stats[k], 3)
    r["stats"] = stats
    if results is None:
        raise ValueError("no result block; errors=%s" % errors[:3])
    reach = {}
    for x in results:
        sl = x.get("sourceLocation", {})
        if sl.get("propertyClass") == "reachability_check":
            # description is the check id; FAILURE = reachable
            reach[x["description"]] = (x["status"] == "FAILURE")
    funcs = set()
    checks, covers = [], []
    for x in results:
        sl = x.get("sourceLocation", {})
        cls = sl.get("propertyClass") or "other"
        fn = sl.get("function", "")
        f = sl.get("file", "")
        if f.startswith("/repo/") and fn:
            funcs.add(fn)
        desc = x.get("description", "")
        cid = None
        m = re.match(r"\[(KANI_CHECK_ID_[^\]]+)\] (.*)", desc, re.S)
        if m:
            cid, desc = m.group(1), m.group(2)
        item = {"id": x["property"], "class": cls, "desc": desc, "status": x["status"],
                "file": f, "line": sl.get("line"), "function": fn}
        if cid is not None:
            item["reachable"] = reach.get(cid)
        if cls == "reachability_check":
            continue
        if cls == "cover":
            item["satisfied"] = (x["status"] == "FAILURE")
            covers.append(item)
            continue
        if "trace" in x:
            item["inputs"] = extract_inputs(x["trace"])
        checks.append(item)
    r["checks"] = checks
    r["covers"] = covers
    r["functions"] = sorted(funcs)
    r["cprover_status"] = status
    undecided = [x for x in results if x.get("status") not in ("SUCCESS", "FAILURE")]
    if undecided or errors:
        # e.g. "Solver ran out of memory during propositional reduction": nothing was decided
        r["status"] = "error"
        r["detail"] = "cbmc left %d checks undecided; messages: %s" % (len(undecided), "; ".join(errors[:3]))
    else:
        r["status"] = "done"


def extract_inputs(trace):
    """Values CBMC assigned to kani::any() calls, in program order (best effort; the
    authoritative replay uses Kani's own concrete playback)."""
    vals = []
    for s in trace:
        if s.get("stepType") != "assignment":
            continue
        fn = s.get("sourceLocation", {}).get("function", "")
        if "kani::any_raw" not in fn:
            continue
        v = s.get("value", {})
        if "data" in v:
            vals.append({"lhs": s.get("lhs"), "fn": fn, "value": v.get("data")})
    return vals[:256]


def is_failure(c):
    if c["class"] in IGNORED_CLASSES:
        return False
    if IGNORED_DESC.match(c["desc"] or ""):
        return False
    return c["status"] == "FAILURE"


def schedule(jobs, run_dir, built, max_par=16, mem_budget_gb=52):
    """jobs: list of (name, timeout_s, mem_gb). Runs them with a worker pool bounded by
    core count and by a memory budget. mem_gb is the hard address-space cap of the cbmc
    process; measured peaks are far below the caps (0.3-3 GB), so a job is budgeted at a
    third of its cap (16 jobs with the default 8 GB cap fit the 52 GB budget)."""
    jobs = [(n, t, m) for (n, t, m) in jobs]
    results = {}
    lock = threading.Condition()
    state = {"mem": 0.0, "running": 0}
    # biggest first
    order = sorted(jobs, key=lambda j: -j[1])

    def worker(name, timeout_s, mem_gb):
        try:
            res = run_harness(name, built[name], run_dir, timeout_s, mem_gb)
        except Exception as e:  # pragma: no cover
            res = {"harness": name, "status": "error", "detail": repr(e), "checks": [],
                   "covers": [], "functions": [], "stats": {}}
        with lock:
            results[name] = res
            state["mem"] -= mem_gb / 3.0
            state["running"] -= 1
            lock.notify_all()
        fails = sum(1 for c in res["checks"] if is_failure(c))
        log("  [%s] %s  %.0fs  checks=%d failed=%d %s" % (
            res["status"], name, res.get("wall_s", 0), len(res["checks"]), fails,
            res.get("detail", "")))

    threads = []
    for (name, timeout_s, mem_gb) in order:
        with lock:
            while state["running"] >= max_par or (state["running"] > 0 and state["mem"] + mem_gb / 3.0 > mem_budget_gb):
                lock.wait()
            state["running"] += 1
            state["mem"] += mem_gb / 3.0
        t = threading.Thread(target=worker, args=(name, timeout_s, mem_gb))
        t.start()
        threads.append(t)
    for t in threads:
        t.join()
    return results
