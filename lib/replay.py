"""Counterexample handling (DESIGN 3.5): Kani's concrete playback recovers the values of
every kani::any() from CBMC's trace, writes a #[test] next to the harness in a scratch
copy of the harness crate, and that test is run natively (dev profile, then release)
against the real crates in /repo."""
import json
import os
import re
import shutil
import subprocess

from kani_run import BUILD, ENV, HARNESS_DIR, log


def _copy_crate(dst):
    if os.path.exists(dst):
        shutil.rmtree(dst)
    shutil.copytree(HARNESS_DIR, dst, ignore=shutil.ignore_patterns("target"))


def make_playback(harness, timeout_s=3600, extra_kani_args=()):
    """Returns (scratch_dir, [test names], log) after running Kani with
    --concrete-playback=inplace on a scratch copy of the harness crate."""
    scratch = os.path.join(BUILD, "pb", harness.replace("::", "__"))
    _copy_crate(scratch)
    cmd = ["cargo", "kani", "--target-dir", os.path.join(BUILD, "target-pb"), "--exact",
           "--harness", harness, "-Z", "concrete-playback", "--concrete-playback=inplace"]
    cmd += list(extra_kani_args)
    try:
        p = subprocess.run(cmd, cwd=scratch, env=ENV, stdout=subprocess.PIPE, stderr=subprocess.STDOUT,
                           text=True, timeout=timeout_s)
        out = p.stdout
    except subprocess.TimeoutExpired as e:
        out = (e.stdout or b"").decode("utf-8", "replace") if isinstance(e.stdout, bytes) else (e.stdout or "")
        out += "\n[timeout]"
    tests = []
    for root, _, files in os.walk(os.path.join(scratch, "src")):
        for f in files:
            src = open(os.path.join(root, f)).read()
            tests += re.findall(r"fn (kani_concrete_playback_\w+)\(", src)
    return scratch, sorted(set(tests)), out


def extract_tests(scratch):
    """Source text of the generated playback tests (those for failed checks, not for covers)."""
    texts = {}
    pat = re.compile(r"((?:[ \t]*///[^\n]*\n)*)\s*#\[test\]\s*fn (kani_concrete_playback_\w+)\(\) \{.*?"
                     r"concrete_playback_run\(\s*concrete_vals,\s*\w+\s*\);\s*\}", re.S)
    for root, _, files in os.walk(os.path.join(scratch, "src")):
        for f in files:
            src = open(os.path.join(root, f)).read()
            for m in pat.finditer(src):
                doc = m.group(1)
                if "Check for `cover`" in doc:
                    continue
                code = m.group(0)[len(doc):].strip()
                texts[m.group(2)] = {"file": os.path.relpath(os.path.join(root, f), scratch), "code": code,
                                     "doc": doc.strip()}
    return texts


def run_native(scratch, test, release=False, timeout_s=900):
    cmd = ["cargo", "kani", "playback", "-Z", "concrete-playback", "--", test]
    env = dict(ENV, CARGO_TARGET_DIR=os.path.join(BUILD, "target-native"))
    if release:
        # `cargo kani playback` has no --release; the release profile's settings are
        # applied to the dev/test profile through cargo's environment overrides
        env.update(CARGO_PROFILE_DEV_OPT_LEVEL="3", CARGO_PROFILE_DEV_OVERFLOW_CHECKS="false",
                   CARGO_PROFILE_DEV_DEBUG_ASSERTIONS="false",
                   CARGO_TARGET_DIR=os.path.join(BUILD, "target-native-rel"))
    try:
        p = subprocess.run(cmd, cwd=scratch, env=env, stdout=subprocess.PIPE, stderr=subprocess.STDOUT,
                           text=True, timeout=timeout_s)
        out, rc = p.stdout, p.returncode
    except subprocess.TimeoutExpired as e:
        out, rc = "[timeout: native replay did not terminate in %ds]" % timeout_s, 124
    panicked = bool(re.search(r"panicked at|test result: FAILED|\.\.\. FAILED|SIGSEGV|SIGABRT|signal: \d+", out))
    ran = bool(re.search(r"running \d+ test", out))
    return {"rc": rc, "ran": ran, "failed": (ran and rc != 0) or panicked or rc == 124,
            "tail": out[-2500:]}


def insert_test(scratch, file_rel, code):
    """Used by --replay: put a saved playback test back into a fresh scratch copy."""
    path = os.path.join(scratch, file_rel)
    src = open(path).read()
    m = re.search(r"fn (kani_concrete_playback_(\w+?)_\d+)\(", code)
    # the test must live in the module of its harness: place it right before the
    # harness's #[kani::proof] attribute
    body_call = re.search(r"concrete_playback_run\(\s*concrete_vals,\s*(\w+)\s*\)", code)
    target = body_call.group(1) if body_call else None
    idx = None
    if target:
        mm = re.search(r"(#\[kani::proof\][^\n]*\n(?:\s*#\[[^\n]*\n)*\s*(?:pub )?fn " + re.escape(target) + r"\()", src)
        if mm:
            idx = mm.start()
    if idx is None:
        raise RuntimeError("cannot locate harness %s in %s" % (target, file_rel))
    src = src[:idx] + code + "\n" + src[idx:]
    open(path, "w").write(src)
