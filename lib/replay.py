"""Counterexample handling (DESIGN 3.5): Kani's concrete playback recovers the values of
every kani::any() from CBMC's trace, writes a #[test] next to the harness in a scratch
copy of the harness crate, and that test is run natively (dev profile, then release)
against the real crates in /repo."""
import json
import os
import re
import shutil
import subprocess

from kani_run import BUILD, ENV, HARNESS_DIR, log


def _copy_crate(dst):
    if os.path.exists(dst):
        shutil.rmtree(dst)
    shutil.copytree(HARNESS_DIR, dst, ignore=shutil.ignore_patterns("target"))


def make_playback(harness, timeout_s=3600, extra_kani_args=()):
    """Returns (scratch_dir, [test names], log) after running Kani with
    --concrete-playback=inplace on a scratch copy of the harness crate."""
    scratch = os.path.join(BUILD, "pb", harness.replace("::", "__"))
    _copy_crate(scratch)
    cmd = ["cargo", "kani", "--target-dir", os.path.join(BUILD, "target-pb"), "--exact",
           "--harness", harness, "-Z", "concrete-playback", "--concrete-playback=inplace"]
    cmd += list(extra_kani_args)
    try:
        p = subprocess.run(cmd, cwd=scratch, env=ENV, stdout=subprocess.PIPE, stderr=subprocess.STDOUT,
                           text=True, timeout=timeout_s)
        out = p.stdout
    except subprocess.TimeoutExpired as e:
        out = (e.stdout or b"").decode("utf-8", "replace") if isinstance(e.stdout, bytes) else (e.stdout or "")
        out += "\n[timeout]"
    tests = []
    for root, _, files in os.walk(os.path.join(scratch, "src")):
        for f in files:
            src = open(os.path.join(root, f)).read()
            tests += re.findall(r"fn (kani_concrete_playback_\w+)\(", src)
    return scratch, sorted(set(tests)), out


def extract_tests(scratch):
    """Source text of the generated playback tests (those for failed checks, not for covers)."""
    texts = {}
    pat = re.compile(r"((?:[ \t]*///[^\n]*\n)*)\s*#\[test\]\s*fn (kani_concrete_playback_\w+)\(\) \{.*?"
                     r"concrete_playback_run\(\s*concrete_vals,\s*\w+\s*\);\s*\}", re.S)
    for root, _, files in os.walk(os.path.join(scratch, "src")):
        for f in files:
            src = open(os.path.join(root, f)).read()
            for m in pat.finditer(src):
                doc = m.group(1)
                if "Check for `cover`" in doc:
                    continue
                code = m.group(0)[len(doc):].strip()
                texts[m.group(2)] = {"file": os.path.relpath(os.path.join(root, f), scratch), "code": code,
                                     "doc": doc.strip()}
    return texts


def run_native(scratch, test, release=False, timeout_s=900, harness=None):
    """Runs one generated playback test natively. A harness stamped by a macro gets the test in
    every expansion of that macro: `--exact <module path>::<test>` selects the one that belongs
    to the failing harness (the others may trip their own `kani::assume`s)."""
    if harness and "::" in harness:
        test_path = harness.rsplit("::", 1)[0] + "::" + test
        cmd = ["cargo", "kani", "playback", "-Z", "concrete-playback", "--", "--exact", test_path]
    else:
        cmd = ["cargo", "kani", "playback", "-Z", "concrete-playback", "--", test]
    env = dict(ENV, CARGO_TARGET_DIR=os.path.join(BUILD, "target-native"))
    if release:
        # `cargo kani playback` has no --release; the release profile's settings are
        # applied to the dev/test profile through cargo's environment overrides
        env.update(CARGO_PROFILE_DEV_OPT_LEVEL="3", CARGO_PROFILE_DEV_OVERFLOW_CHECKS="false",
                   CARGO_PROFILE_DEV_DEBUG_ASSERTIONS="false",
                   CARGO_TARGET_DIR=os.path.join(BUILD, "target-native-rel"))
    try:
        p = subprocess.run(cmd, cwd=scratch, env=env, stdout=subprocess.PIPE, stderr=subprocess.STDOUT,
                           text=True, timeout=timeout_s)
        out, rc = p.stdout, p.returncode
    except subprocess.TimeoutExpired as e:
        out, rc = "[timeout: native replay did not terminate in %ds]" % timeout_s, 124
    panicked = bool(re.search(r"panicked at|test result: FAILED|\.\.\. FAILED|SIGSEGV|SIGABRT|signal: \d+", out))
    ran = bool(re.search(r"running [1-9]\d* test", out))
    return {"rc": rc, "ran": ran, "failed": (ran and rc != 0) or panicked or rc == 124,
            "tail": out[-2500:]}


def insert_test(scratch, file_rel, code, line=None):
    """Put a saved playback test into a scratch copy, right before the `#[kani::proof]` of its
    harness. `line` = source line of the harness fn (Kani metadata): several harnesses may share
    a function name (macro-stamped families), the line picks the right definition."""
    path = os.path.join(scratch, file_rel)
    src = open(path).read()
    body_call = re.search(r"concrete_playback_run\(\s*concrete_vals,\s*(\w+)\s*\)", code)
    target = body_call.group(1) if body_call else None
    idx = None
    if target:
        cands = [mm.start() for mm in re.finditer(r"#\[kani::proof\][^\n]*\n(?:\s*#\[[^\n]*\n)*\s*(?:pub )?fn " + re.escape(target) + r"\(", src)]
        if cands and line:
            offs = 0
            for _ in range(max(0, int(line) - 1)):
                offs = src.index("\n", offs) + 1
            before = [c for c in cands if c <= offs + 200]
            idx = max(before) if before else cands[0]
        elif cands:
            idx = cands[0]
    if idx is None:
        raise RuntimeError("cannot locate harness %s in %s" % (target, file_rel))
    # keep the indentation context simple: insert at the start of that line
    idx = src.rfind("\n", 0, idx) + 1
    src = src[:idx] + code + "\n" + src[idx:]
    open(path, "w").write(src)
