#!/usr/bin/env python3
"""Development aid: run a set of harnesses (regex over names listed by tools/list_harnesses)
and print status, time, failures, witnesses. Not a registered check."""
import sys, os, re, json, time, shutil
HERE = os.path.dirname(os.path.dirname(os.path.abspath(__file__)))
sys.path.insert(0, os.path.join(HERE, "lib"))
import kani_run

def _macro_bodies(txt):
    """name -> body text of macro_rules! definitions; also returns txt with bodies blanked."""
    out = {}
    res = txt
    for m in re.finditer(r"macro_rules!\s+(\w+)\s*\{", txt):
        i = m.end(); depth = 1
        while depth and i < len(txt):
            if txt[i] == "{": depth += 1
            elif txt[i] == "}": depth -= 1
            i += 1
        out[m.group(1)] = txt[m.end():i]
        res = res[:m.start()] + " " * (i - m.start()) + res[i:]
    return out, res

def all_harnesses():
    names = []
    src = os.path.join(os.environ.get("VERIF_HARNESS", os.path.join(HERE, "harness")), "src")
    for f in sorted(os.listdir(src)):
        if not f.endswith(".rs"): continue
        mod = f[:-3]
        txt = open(os.path.join(src, f)).read()
        macros, plain = _macro_bodies(txt)
        # macro-stamped modules: fam!(A, [B,] ...) -> module named by the first (or second, if it is an identifier) argument
        for m in re.finditer(r"^(\w+)!\((\w+)(?:, (\w+))?(?:,[^\n]*)?\);\s*(?://[^\n]*)?$", plain, re.M):
            fam, shape = m.group(1), m.group(2)
            if m.group(3) and not m.group(3).isdigit():
                shape = m.group(3)
            body = macros.get("paste_" + fam) or macros.get(fam)
            if not body: continue
            for fn in re.findall(r"#\[kani::proof\][^\n]*\n(?:\s*#\[[^\n]*\n)*\s*(?:pub )?fn (\w+)\(", body):
                names.append("%s::%s::%s" % (mod, shape, fn))
        # plain harnesses, with their chain of enclosing modules
        stack = []; depth = 0
        tok = re.compile(r"(pub\s+)?mod\s+(\w+)\s*\{|\{|\}|#\[kani::proof\][^\n]*\n(?:\s*(?:#\[[^\n]*|///[^\n]*|//[^\n]*)\n)*\s*(?:pub )?fn (\w+)\(")
        for m in tok.finditer(plain):
            t = m.group(0)
            if m.group(2):
                depth += 1; stack.append((m.group(2), depth))
            elif t == "{":
                depth += 1
            elif t == "}":
                if stack and stack[-1][1] == depth: stack.pop()
                depth -= 1
            elif m.group(3):
                names.append("::".join([mod] + [x[0] for x in stack] + [m.group(3)]))
    return names

if __name__ == "__main__":
    pat = sys.argv[1]
    timeout = int(sys.argv[2]) if len(sys.argv) > 2 else 600
    mem = float(sys.argv[3]) if len(sys.argv) > 3 else 8
    names = [n for n in all_harnesses() if re.search(pat, n)]
    if not names:
        print("no harness matches"); sys.exit(2)
    run_dir = os.path.join(kani_run.BUILD, "runs", "probe-%d" % os.getpid())
    os.makedirs(run_dir, exist_ok=True)
    t0 = time.time()
    built, bs = kani_run.build(names, run_dir, ["-Z", "stubbing"] if os.environ.get("STUB") else [])
    print("build %.0fs, %d harnesses" % (bs, len(names)))
    res = kani_run.schedule([(n, timeout, mem) for n in names], run_dir, built)
    for n in names:
        r = res[n]
        fails = [c for c in r["checks"] if kani_run.is_failure(c)]
        cov = {c["desc"]: c["satisfied"] for c in r["covers"]}
        print("%-28s %-8s %6.0fs  vars=%-8s fails=%d  unsat-w=%s" % (n, r["status"], r.get("wall_s", 0), r["stats"].get("variables"), len(fails),
              [k for k, v in cov.items() if not v and k.startswith("w:")]))
        seen = set()
        for c in fails:
            key = (c["desc"], c["file"], c["line"])
            if key in seen: continue
            seen.add(key)
            print("      FAIL [%s] %s @ %s:%s (%s)" % (c["class"], c["desc"][:110], c["file"][-40:], c["line"], c["function"][-60:]))
        if r["status"] != "done": print("      ", r.get("detail"))
    if not os.environ.get("KEEP"): shutil.rmtree(run_dir, ignore_errors=True)
    print("total %.0fs" % (time.time() - t0))
