#!/usr/bin/env python3
"""Development aid: run the registered quick check of each seeded change's property against a
private worktree of /repo carrying that change (VERIF_REPO), a few in parallel; record what was
reported. (The prescribed serial procedure - git -C /repo apply; ./check; git checkout - gives
the same result; this only saves wall-clock time.)"""
import json, os, subprocess, sys, shutil, re, time
from concurrent.futures import ThreadPoolExecutor
HERE = os.path.dirname(os.path.dirname(os.path.abspath(__file__)))
ids = sys.argv[1:] or sorted(os.listdir(os.path.join(HERE, "seeded")))
ids = [i for i in ids if os.path.isdir(os.path.join(HERE, "seeded", i.split(":")[0]))]
TIER = os.environ.get("SEED_TIER", "quick")

def run(spec, prop=None):
    mid = spec.split(":")[0]
    prop = spec.split(":")[1] if ":" in spec else mid[:3]  # C07b -> C07
    wt = "/tmp/seed_%s_%s" % (mid, prop)
    subprocess.run(["git", "-C", "/repo", "worktree", "remove", "--force", wt], stdout=subprocess.DEVNULL, stderr=subprocess.DEVNULL)
    subprocess.run(["git", "-C", "/repo", "worktree", "add", "-q", "--detach", wt, "HEAD"], check=True)
    subprocess.run(["git", "-C", wt, "apply", os.path.join(HERE, "seeded", mid, "patch.diff")], check=True)
    env = dict(os.environ, VERIF_REPO=wt, VERIF_EVIDENCE_DIR="/tmp/seed_ev_%s_%s" % (mid, prop), VERIF_REPLAYS_DIR=os.path.join(HERE, "seeded", mid, "replays"), VERIF_JOBS="6")
    t0 = time.time()
    p = subprocess.run([os.path.join(HERE, "check"), prop, "--tier", TIER], env=env, stdout=subprocess.PIPE, stderr=subprocess.STDOUT, text=True)
    out = p.stdout
    viol = re.findall(r"failing check in (\S+): (.*)", out)
    res = {"id": mid, "property": prop, "tier": TIER, "exit": p.returncode, "wall_s": round(time.time() - t0),
           "violations": [{"harness": h, "check": c[:200]} for h, c in viol][:8],
           "inconclusive": re.findall(r"INCONCLUSIVE.*", out)[:4]}
    open("/tmp/seed_%s_%s.log" % (mid, prop), "w").write(out)
    subprocess.run(["git", "-C", "/repo", "worktree", "remove", "--force", wt])
    shutil.rmtree(os.path.join(HERE, ".build", "alt-tmp_seed_%s_%s" % (mid, prop)), ignore_errors=True)
    shutil.rmtree("/tmp/seed_ev_%s_%s" % (mid, prop), ignore_errors=True)
    print(json.dumps(res), flush=True)
    return res

with ThreadPoolExecutor(max_workers=int(os.environ.get("SEED_PAR", "3"))) as ex:
    results = list(ex.map(run, ids))
path = os.path.join(HERE, "seeded", "results.json")
old = {}
if os.path.exists(path):
    old = {r["id"] + ":" + r["property"] + ":" + r["tier"]: r for r in json.load(open(path))}
for r in results:
    old[r["id"] + ":" + r["property"] + ":" + r["tier"]] = r
json.dump(sorted(old.values(), key=lambda r: r["id"]), open(path, "w"), indent=1)
