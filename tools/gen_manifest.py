#!/usr/bin/env python3
"""Regenerates /verif/MANIFEST.json from lib/registry_props.py (single source of truth)."""
import json, os, sys
HERE = os.path.dirname(os.path.dirname(os.path.abspath(__file__)))
sys.path.insert(0, os.path.join(HERE, "lib"))
import registry

ALL = ["C%02d" % i for i in range(1, 21)]
checks = []
for pid in ALL:
    if pid not in registry.PROPS or registry.PROPS[pid].get("unclaimed"):
        continue
    P = registry.PROPS[pid]
    checks.append({
        "property_id": pid,
        "quick_cmd": "./check %s --tier quick" % pid,
        "thorough_cmd": "./check %s --tier thorough" % pid,
        "evidence_file": "/verif/evidence/%s.json" % pid,
        "replay_cmd_template": "./check %s --replay {path}" % pid,
        "engine": P.get("engine", "kani"),
        "level_claimed": {"category": "model_checking", "text": P["level_text"], "design_ref": "DESIGN.md section 5 (%s)" % pid},
        "level_note": P.get("level_note", "Bounded: holds for all inputs inside the stated byte/unwind/item bounds only. Trusted: rustc MIR, Kani 0.68 MIR->GOTO translation and its models of alloc/intrinsics, CBMC 6.11, CaDiCaL, z3/cvc5 and the MIR->SMT encoder where used, the hand-written reference decoders/models in harness/src (independent of the library)."),
        "technique": P.get("technique", "bounded model checking of the compiled Rust code (Kani/CBMC, SAT) against an independent reference model"),
    })
na = []
for pid in ALL:
    if pid not in registry.PROPS or registry.PROPS[pid].get("unclaimed"):
        na.append({"property_id": pid, "reason": registry.NOT_CLAIMED.get(pid, "check not built yet")})
m = {
    "version": 1,
    "setup_cmd": "python3 tools/setup.py",
    "hooks": {
        "guard": "cargo feature `verif` of flatty-io (off by default)",
        "enable": "the harness crate /verif/harness depends on flatty-io with features = [\"verif\"]; cargo kani rebuilds /repo's crates from the working tree on every run",
        "baseline_off_cmd": "cd /repo && cargo test --workspace --no-fail-fast --offline",
        "source_commits": registry.HOOK_COMMITS,
        "add_only": True,
    },
    "engines": [
        {"name": "kani", "path": "/verif/harness + /verif/lib/kani_run.py", "serves_properties": [c["property_id"] for c in checks],
         "kind_free_text": "Kani 0.68 proof harnesses over the real crates (path deps on /repo); goto-cc/goto-instrument/cbmc pipeline scheduled per harness; CaDiCaL decides"},
    ],
    "checks": checks,
    "not_applicable": na,
    "notes": "Exit codes: 0 held within bounds; 1 VIOLATION (replayed natively with Kani concrete playback); 2 inconclusive (time-out, OOM, vacuous witness, build failure, non-reproducing counterexample). See DESIGN.md.",
}
json.dump(m, open(os.path.join(HERE, "MANIFEST.json"), "w"), indent=1)
print("MANIFEST.json: %d checks, %d not claimed" % (len(checks), len(na)))
