#!/usr/bin/env python3
"""setup_cmd: nothing persistent is built (every check rebuilds from /repo); this only
verifies that the tools the checks need are present and that the registry loads."""
import os, shutil, sys
HERE = os.path.dirname(os.path.dirname(os.path.abspath(__file__)))
sys.path.insert(0, os.path.join(HERE, "lib"))
import registry
missing = [t for t in ("cargo", "cargo-kani", "cbmc", "goto-cc", "goto-instrument", "z3", "cvc5") if shutil.which(t) is None]
if missing:
    print("missing tools:", missing); sys.exit(1)
if not os.path.exists(os.path.expanduser("~/.kani/kani-0.68.0/library/kani/kani_lib.c")):
    print("kani 0.68.0 bundle not found"); sys.exit(1)
os.makedirs(os.path.join(HERE, ".build"), exist_ok=True)
os.makedirs(os.path.join(HERE, "evidence"), exist_ok=True)
print("setup ok: %d properties registered" % len(registry.PROPS))
