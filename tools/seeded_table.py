#!/usr/bin/env python3
"""Fills DESIGN.md section 7 from seeded/*/meta.json and seeded/results.json."""
import json, os, re
HERE = os.path.dirname(os.path.dirname(os.path.abspath(__file__)))
res = json.load(open(os.path.join(HERE, "seeded", "results.json")))
by = {}
for r in res:
    by.setdefault(r["id"], []).append(r)
rows = ["| change | what it breaks / needs | check run | result | reported by |", "|---|---|---|---|---|"]
for mid in sorted(os.listdir(os.path.join(HERE, "seeded"))):
    mp = os.path.join(HERE, "seeded", mid, "meta.json")
    if not os.path.exists(mp):
        continue
    meta = json.load(open(mp))
    for r in sorted(by.get(mid, []), key=lambda r: (r["property"], r["tier"])):
        if r["exit"] == 1:
            v = r["violations"][0]
            what = re.sub(r"\s+at /\S+", "", v["check"])
            rep = "`%s`: %s" % (v["harness"], what[:110].replace("|", "/"))
            out = "**caught** (exit 1, %d s)" % r["wall_s"]
        elif r["exit"] == 0:
            rep, out = "—", "missed (exit 0)"
        else:
            rep, out = (r["inconclusive"][0][:90] if r["inconclusive"] else "—"), "inconclusive (exit 2)"
        rows.append("| seeded/%s | %s. Needs: %s | `./check %s --tier %s` | %s | %s |" % (
            mid, meta["change"], meta["needs_to_manifest"], r["property"], r["tier"], out, rep))
table = "\n".join(rows)
p = os.path.join(HERE, "DESIGN.md")
s = open(p).read()
if "SEEDED_TABLE_PLACEHOLDER" in s:
    s = s.replace("SEEDED_TABLE_PLACEHOLDER", "<!-- seeded-table-begin -->\n" + table + "\n<!-- seeded-table-end -->")
else:
    s = re.sub(r"<!-- seeded-table-begin -->.*<!-- seeded-table-end -->", "<!-- seeded-table-begin -->\n" + table + "\n<!-- seeded-table-end -->", s, flags=re.S)
open(p, "w").write(s)
print(table)
